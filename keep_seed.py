#!/usr/bin/env python3
"""keep_seed.py <name> <property> <detected: yes|no|after-strengthening> <checks that catch it> <note>
Copies a confirmed seeded change from /tmp/seed/out/<name> to /verif/seeded/<name>/ and
removes its scratch worktree."""
import json, os, shutil, subprocess, sys
name, prop, detected, checks, note = sys.argv[1:6]
src = f"/tmp/seed/out/{name}"
dst = f"/verif/seeded/{name}"
os.makedirs(dst, exist_ok=True)
shutil.copy(f"{src}/patch.diff", f"{dst}/patch.diff")
if os.path.isdir(f"{dst}/demo"): shutil.rmtree(f"{dst}/demo")
shutil.copytree(f"{src}/demo", f"{dst}/demo")
agent = {}
try: agent = json.load(open(f"{src}/meta.json"))
except Exception as e: agent = {"error": str(e)}
verdict = [l.strip() for l in open(f"{src}/confirm.log") if l.startswith("VERDICT")]
meta = {
  "property": prop,
  "summary": agent.get("summary"),
  "needs_to_manifest": agent.get("needs_to_manifest"),
  "files_touched": agent.get("files_touched"),
  "author": "independent sub-agent given only the property text and a scratch worktree",
  "confirmed_by_me": {
     "what_i_ran": "confirm_seed.sh in the scratch worktree: cargo test --offline -p yash-semantics -p yash-builtin -p yash-env -p yash-syntax -p yash-executor -p yash-arith -p yash-fnmatch -p yash-quote -p yash-prompt with the change applied; the demonstration with the change; the demonstration with the change stashed",
     "verdict": verdict,
  },
  "detection": {"detected": detected, "by_checks": checks.split(","), "how": "try_seed.sh: git -C /repo apply patch.diff; ./check <ID> quick; git -C /repo checkout -- .", "note": note},
}
json.dump(meta, open(f"{dst}/meta.json", "w"), indent=1)
wt = f"/tmp/seed/{name}"
if os.path.isdir(wt):
    subprocess.run(["git", "-C", "/repo", "worktree", "remove", "--force", wt])
print("kept", dst)
