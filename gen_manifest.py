#!/usr/bin/env python3
"""Writes /verif/MANIFEST.json from the tables below (kept in one place so the
claimed checks, their commands and the not-applicable list never drift)."""
import json, subprocess

NA = {
 "C01": "word expansion is a pure function of (word, variables, positional parameters, IFS, options): no schedule, clock, fault or interleaving for a simulator to own; input enumeration would be a different technique",
 "C02": "control flow and exit status are a pure function of the program text; the timing-dependent part (statuses collected from concurrently running children) is exercised under C13",
 "C03": "arithmetic evaluation is a pure function of (expression text, variable map); totality over arbitrary text is input fuzzing, not simulation",
 "C04": "pattern matching is a pure function of (pattern, string, configuration)",
 "C05": "pathname expansion is a pure function of (directory tree, field, options); the tree is static configuration, not a fault arriving during an operation",
 "C06": "parser totality and print/re-parse round trip are pure functions of the input text (read-ahead on a live descriptor is C18)",
 "C07": "quoting and state listings are pure functions of the string / shell state being listed",
 "C10": "whether the script aborts is a deterministic function of the program text and option state (a dynamic context stack, but no schedule or fault enters it)",
 "C16": "the variable store is a sequential data structure driven only by the program text; lock-step model comparison over operation sequences has no fault or interleaving in it",
 "C17": "alias substitution is a pure function of (alias table, command line); line-by-line effect of alias definitions is part of the C18 workload",
 "C20": "built-in argument parsing is a pure function of the argument vector",
}

CHECKS = {}

def check(pid, category, text, note, technique, design_ref):
    CHECKS[pid] = {
        "property_id": pid,
        "quick_cmd": f"./check {pid} quick",
        "thorough_cmd": f"./check {pid} thorough",
        "evidence_file": f"/verif/evidence/{pid}.json",
        "replay_cmd_template": "./check replay {path}",
        "engine": "yash-sim",
        "level_claimed": {"category": category, "text": text, "design_ref": design_ref},
        "level_note": note,
        "technique": technique,
    }

BASE_NOTE = ("Decided relative to the repository's own simulated kernel (VirtualSystem), rebuilt from /repo's working tree with "
             "feature verif-hooks; seeded sampling, not enumeration, unless stated; probe built-ins and the outer scheduler are harness code.")

check("C13", "exploration",
      "Race-free generated shell programs with up to ~6 concurrently live processes run whole on the simulated OS under a seeded scheduler (FIFO baseline, random, PCT, round-robin, FIFO-with-deviations) with preemption at kernel-call boundaries and short I/O; oracles: termination (deadlock = no runnable task and no timer), stdout/$?/final status equal to a reference interpreter of the generator AST and identical across schedules, wait results equal exit statuses and never precede exit, every awaited child reaped exactly once, no zombie. Separate fault configurations with a narrowly relaxed oracle (termination, true wait statuses, nothing runs after its death): the k-th fork fails with EAGAIN; children are killed with SIGKILL from outside at seeded instants (crash injection). A kernel-level engine drives the simulated process table (fork, exit, setpgid, kill to a process or a process group incl. STOP/CONT/KILL, signal masks, dispositions, wait) through seeded histories against a POSIX life-cycle model (each state change reported once and truthfully, ECHILD only when nothing is left, zombies and reaped processes immune, stopped processes hold signals until SIGCONT). A fifth of the programs trap SIGUSR1 in the main shell and have foreground children send it; blocks may run inside `eval` / `command eval` (children awaited inside a built-in, in interactive programs next to the helper that records caught signals). Sampling many interleavings is the right level because the property is quantified over schedules the test suite's single FIFO executor never produces.",
      BASE_NOTE, "deterministic simulation: seeded scheduler on the Executor seam + preemption hooks, reference-interpreter oracle", "DESIGN.md section 4 C13")

check("C14", "exploration",
      "gen|relay|sink pipelines with payload sizes around every pipe-buffer boundary up to 4x capacity, command substitutions (plain/piped/nested/in-stage, 0-3 trailing newlines, multi-byte UTF-8), here-documents, the real read built-in on a slow producer, two processes writing PIPE_BUF-sized records to one pipe (no record torn) and two processes reading one pipe (every byte reaches exactly one of them), executed under seeded schedules with preemption at every read/write, short reads, legal partial writes and simulator-sent signals to stages that installed a trap; exact byte-stream oracle (length, first deviating offset, hash) computed by the generator; deadlock/livelock detection; further engines drive one pipe of the simulated kernel through read/write/dup/close/O_NONBLOCK/select histories against a POSIX pipe model (results byte for byte, blocked operations woken exactly when they can proceed, select agreeing with readiness), and the real WakerSet / ScheduledWakerQueue (the wake-up bookkeeping under pipes and timers) through seeded histories in which waiting cells die, are served by another event or are re-filled, against a reference model (no lost, invented or doubled wake-up); crash-injection runs (a stage killed from outside) check that every surviving process still terminates; every program ends by printing the shell's descriptor table, which must be the initial one. The property is quantified over schedules x sizes, which only controlled scheduling of the real pipe code reaches.",
      BASE_NOTE + " SIGPIPE is not modelled by the simulated kernel, so the early-exiting-reader cases check liveness and prefix integrity only.",
      "deterministic simulation: seeded scheduler + short-I/O/preemption/signal fault injection, exact byte-stream oracle", "DESIGN.md section 4 C14")

check("C18", "exploration",
      "Generated scripts (commands mixed with data lines read from the same input, alias/option changes affecting later lines, multi-line constructs, here-documents in every position where the grammar lets a newline follow the operator, planted syntax errors, a final consumer of the remaining input) are fed as a regular file, through a pipe written by a simulated feeder process in seeded chunk sizes under seeded schedules with preemption at every read, as a -c string and as a command file; oracles: trace/status equality with the generator's expectation in every variant and chunking, and at every `tell` probe the input has been consumed exactly to the end of the running command's last line (lseek offset for files; bytes read from fd 0 according to kernel events for pipes). Fault configurations with a prefix oracle: the input source dies after a seeded number of bytes (short file / feeder closes the pipe) or the input file's reads start failing with EIO at a seeded read - everything delivered completely must have taken effect, nothing hangs, and the shell does not report success when its own reader failed (the EIO also as a transient error of one read). A fifth of the scripts also go to an interactive shell on the standard-input variants: same commands and offsets, and it goes on after a one-line syntax error.",
      BASE_NOTE, "deterministic simulation: simulated feeder process with seeded chunking + seeded scheduler; offset invariant from kernel read events", "DESIGN.md section 4 C18")

check("C09", "fault_enumeration",
      "Generated programs of commands (21 command kinds - among them `exec` with a command operand that cannot be executed - x all redirection operators x open/closed/internal/wrong-mode descriptors x existing/missing operands x noclobber; a third of the -c programs in an interactive shell, where a redirection error on a special built-in does not end the shell) run on the simulated OS next to a POSIX redirection-table model that predicts the table the command sees, the results of I/O through the redirected descriptors, the persistent table after exec, statuses and final files. For every program the descriptor-allocation failure positions are ENUMERATED: the fault-free run counts the K allocations and K more runs fail exactly the k-th with EMFILE; plus RLIMIT_NOFILE soft limits 3..16; likewise every position at which a write to a regular file can fail with ENOSPC (full disk) is enumerated (up to 12/40 per program). Under faults the invariants that must never be relaxed are checked: the shell's descriptor table after every non-exec command equals the table before it, no descriptor >= 10 survives an exec, descriptors >= 10 are exactly the close-on-exec ones, the shell terminates.",
      BASE_NOTE + " Failure positions are complete per program; programs are sampled. stderr content is not modelled.",
      "deterministic simulation with enumerated fault injection (every fd-allocation failure position per program) + reference redirection-table model", "DESIGN.md section 4 C09")

check("C08", "exploration",
      "Generated programs place 41 kinds of state-mutating commands (including closing descriptor 0, array values, starting asynchronous jobs, assignments made by `${x:=v}` and `$((x=1))`, and setting `$?`) before and inside every kind of subshell (( ), $( ), both pipeline elements, asynchronous lists, nested to depth 3); a probe serialises the complete shell state (`$?`, variables+attributes, positional parameters, functions, aliases, options, traps, cwd, umask, limits, descriptor table by open-file-description identity, signal dispositions, mask) around each one. Oracles: the parent's snapshot is unchanged by whatever the child does - also while an asynchronous child is still running, under seeded schedules with preemption between any two kernel calls of the parent; the child's entry snapshot equals the parent's except exactly the documented differences (context stack: the parent's plus the subshell frames; a third of the tests run inside a loop body or an `if` condition); data written to shared files/pipes arrives (positive control). Crash-injection runs (children killed with SIGKILL from outside at seeded instants) keep the leak oracle and check every snapshot that was still taken; so do runs in which one seeded descriptor allocation fails with EMFILE and runs under a descriptor limit of 10 (no descriptor for the shell's own use can be allocated; job control switched on afterwards). Every program also runs once in an interactive shell (the shell's own signal handling must not be handed down to its subshells). A virtual fork is an in-memory clone sharing reference-counted parts, so leaks are schedule dependent - which only a controlled scheduler explores. A further kind of test lets a pipeline element start two asynchronous writers that share its standard output (a pipe with a slow reader, more data than it holds) and wait for them: its snapshots before and after must agree, including the mode (O_NONBLOCK) of every open file description, which the writers switch temporarily. Kind CsSig forks a command substitution while a trapped signal is still pending in the parent: pending signals are not handed down (the child must live to take its entry snapshot).",
      BASE_NOTE, "deterministic simulation: full-state snapshots around subshells under seeded schedules with preemption", "DESIGN.md section 4 C08")

check("C15", "exploration",
      "The real yash_executor::Executor runs seeded systems of instrumented futures (self-wake during poll by value/by reference, park wakers in channels, signal/poke channels, spawn children through the Spawner and await/drop/keep their Receivers) while the driver injects external events between step() calls (wakes and double wakes from outside any poll, waker clone/drop, try_receive and Receiver drops, outside spawns) and finally drops the executor, in a third of the cases while tasks are still parked. A reference model (FIFO queue with duplicate suppression, relay states) is stepped in lock-step: every poll, every step()/run_until_stalled() result, wake_count(), every received value and try_receive result must agree; no poll after Ready, no re-entrant poll, every future dropped exactly once. The cases run in a child process so that memory unsafety in the waker vtable (crash) is reported as a violation.",
      "Harness: instrumented futures, channels and the reference model are ours; the executor crate is real, rebuilt from /repo. Sampling (hundreds of thousands of task systems per quick run), not exhaustive enumeration.",
      "deterministic simulation of wake/poll orderings with lock-step reference scheduler model", "DESIGN.md section 4 C15")

check("C12", "exploration",
      "One invariant checker (the statement's invariants through the public JobList API, job-ID resolution - %%, %+, %-, %n and %name / %?name against a reference with not-found and ambiguous outcomes -, plus the transition rules documented on insert/remove/update_status/set_current_job), two engines: seeded event histories of up to 30 events applied to the real JobList - the legal oddities a kernel may deliver in any order, including pid reuse by a new job, duplicate and unexpected reports, reports for unknown pids - checked after every event; and whole-shell runs under set -m on the simulated OS where children stop themselves, are stopped, continued and killed by the script and by the simulator at seeded steps under seeded schedules, with a jobcheck probe evaluating the invariants on Env::jobs after every command, inside loops and functions and from the EXIT trap; the listing printed by the `jobs` built-in is checked as well (unique numbers, exactly one `+`, exactly one `-` for two or more jobs, stopped jobs take the marks first); a third of these runs are interactive shells, whose `[n] pid` announcements must name the number the job keeps in the table; `fg` of a suspended job that stops again must make it the current job; every job is a process group of its own from its first command on.",
      BASE_NOTE + " Histories are sampled with swarm-varied event mixes, not enumerated breadth-first (that would be model checking).",
      "deterministic simulation: seeded job-event histories + whole-shell job control with simulator-injected stop/continue/kill; invariant checker", "DESIGN.md section 4 C12")

check("C11", "exploration",
      "Two engines. (a) Seeded operation histories (set trap action default/ignore/command with and without override, enable/disable each group of internal dispositions, enter a subshell with each option combination, mark/take caught signals) x initial dispositions x nine signal classes incl. KILL/STOP and EXIT drive the real TrapSet against the real Concurrent<VirtualSystem>; after every operation the disposition and mask read back from the simulated process, the listing and the returned error must equal a reference merge written from the documentation (effective = max(internal, trap action); refused iff ignored on entry and not overridden; KILL/STOP never). (b) Whole scripts with USR1/USR2 traps while the simulator delivers signals to the shell at seeded scheduler steps, with preemption between any two kernel calls: stdout, every printed $? and the final status must equal the signal-free run; trap runs == deliveries (spaced) or 1..=deliveries (burst), never nested; two fifths of the scripts leave the shell while still armed (`exit $(slow)`, errexit on a slow failing subshell), where the last command boundary is the one after the command that ends the shell; a quarter run as interactive shells (interruptible built-ins), a third block in `read` on a standard input written by a slow feeder; fixed scenarios cover two signals pending at one boundary with a diverting first action and `wait` inside a trap action; a quarter of the script lines run inside `eval` or `command eval` (and `command wait`), i.e. commands and their trap actions run inside a built-in - which in an interactive shell runs next to the helper that records caught signals.",
      BASE_NOTE, "deterministic simulation: operation histories vs reference merge model + signal injection at seeded scheduler steps vs pending-flag model", "DESIGN.md section 4 C11")

check("C19", "exploration",
      "Differential check whose deciding step stays inside the simulator (plus, underneath it, an engine that issues the same seeded sequences of file-system and descriptor calls - in the shapes the shell uses - through the yash_env::system traits to VirtualSystem and, in a child process in a scratch directory, to RealSystem, and compares every result): generated programs (redirections, descriptor duplication/closing, cd, globbing incl. hidden files, pipelines, command substitution, subshells, & + wait, traps with self-signals, signals to children, umask and modes, symlinks, a named FIFO, error cases) are first run on the simulated OS under the FIFO schedule and seeded schedules with preemption; only programs whose stdout, status and file tree are the same under every schedule (confluent) are run - twice - on the real kernel through the same shell glue and probe built-ins on RealSystem in a scratch directory, and compared with the simulated outcome (stdout bytes, exit status, stderr emptiness, file tree with contents and permission bits). Divergences are minimised at once so that their key names the operation involved; four modelling limits of the simulated file system are listed as known findings. Engine (s) also has paired probes carried out with plain libc calls on the real side: a zombie child (kill / wait) and a process that blocks, unblocks and sends itself TSTP / TTIN / CONT / USR1 / TERM with handlers installed (which signals stay pending: SIGCONT discards pending stop signals and vice versa).",
      "The real execution is observed, not simulated: it is confined to programs the simulator has shown schedule-independent and repeated twice (non-reproducible programs are discarded and counted). Not covered: execve, SIGPIPE, terminals/sessions, wall-clock timing, permission-denied cases (root), pids, error-message wording.",
      "deterministic simulation establishes confluence; differential comparison of confluent programs against the real kernel", "DESIGN.md section 4 C19")

import os
selected = os.environ.get("MANIFEST_ONLY")
manifest = {
    "version": 1,
    "setup_cmd": "./check build && ./check selftest quick",
    "hooks": {
        "guard": "cargo feature verif-hooks (yash-env)",
        "enable": "the simulator crate /verif/sim depends on /repo/yash-env by path with features=[\"verif-hooks\"]; cargo build --release --offline in /verif/sim",
        "baseline_off_cmd": "cd /repo && cargo test --workspace --no-fail-fast --offline",
        "source_commits": subprocess.run(["git", "-C", "/repo", "log", "--format=%H %s", "--grep=^verif hooks"], capture_output=True, text=True).stdout.strip().splitlines(),
        "add_only": True,
    },
    "engines": [
        {"name": "yash-sim", "path": "/verif/sim", "serves_properties": sorted(CHECKS), "kind_free_text": "deterministic simulator: seeded scheduler implementing yash_env::system::virtual::Executor, kernel hooks (preempt, short I/O, EMFILE, events), decision log replay, minimiser"},
    ],
    "checks": [CHECKS[k] for k in sorted(CHECKS)],
    "not_applicable": [{"property_id": k, "reason": v} for k, v in sorted(NA.items())],
    "notes": "See DESIGN.md. Exit codes: 0 held, 1 VIOLATION (replay file printed), 2 harness error. known_findings.txt lists recorded findings and fixed defects.",
}
for pid in ["C08", "C09", "C11", "C12", "C14", "C15", "C18", "C19"]:
    if pid not in CHECKS:
        manifest["not_applicable"].append({"property_id": pid, "reason": "check under construction in this session (simulation applies, see DESIGN.md); not claimed until its check is registered"})
manifest["not_applicable"].sort(key=lambda x: x["property_id"])
json.dump(manifest, open("/verif/MANIFEST.json", "w"), indent=1)
print("wrote MANIFEST.json with checks:", sorted(CHECKS))
