#!/bin/bash
# usage: mutate.sh <file-in-repo> <python-regex-old> <new> <check-id> [cases]
# Applies a one-off mutation to /repo, runs the quick check, reverts.
set -u
f="$1"; old="$2"; new="$3"; id="$4"; cases="${5:-}"
cd /repo
python3 - "$f" "$old" "$new" <<'PY' || { echo "MUTATION DID NOT APPLY"; exit 3; }
import sys,re
f,old,new=sys.argv[1:4]
s=open(f).read()
s2,n=re.subn(old,new,s,count=1,flags=re.S)
if n!=1: sys.exit(1)
open(f,'w').write(s2)
PY
git diff --stat | tail -1
cd /verif
if [ -n "$cases" ]; then ./check "$id" quick --cases "$cases" --no-evidence 2>&1 | cut -c1-600 | tail -6; else ./check "$id" quick --no-evidence 2>&1 | cut -c1-600 | tail -6; fi
echo "exit=${PIPESTATUS[0]}"
git -C /repo checkout -- .
