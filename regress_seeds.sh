#!/bin/bash
# usage: regress_seeds.sh [tier] [name...]   (default: quick, every seed under /verif/seeded)
# Re-checks that each stored seeded change is still caught by the check of its
# property. Works on scratch copies of /repo and /verif bind-mounted over the
# originals in a private mount namespace, so the real trees are never touched.
tier="${1:-quick}"; shift
names="$*"
S=/tmp/iso-seeds${TAG:-}
rm -rf $S; mkdir -p $S
rsync -a --exclude target /repo/ $S/repo/
# (a seeded patch may be applied to /repo's working tree at this very moment: the copy starts from the committed state)
git -C $S/repo checkout -q -- . 2>/dev/null
rsync -a --exclude replays /verif/ $S/verif/
[ -z "$names" ] && names=$(ls /verif/seeded | tr "\n" " ")
unshare -m bash -c "
mount --bind $S/repo /repo && mount --bind $S/verif /verif || exit 2
cd /verif
for n in $names; do
  p=\$(python3 -c \"import json;print(json.load(open('/verif/seeded/\$n/meta.json'))['property'])\")
  git -C /repo apply /verif/seeded/\$n/patch.diff || { echo \"\$n \$p PATCH-DOES-NOT-APPLY\"; continue; }
  ./check \$p $tier --no-evidence > $S/\$n.log 2>&1; rc=\$?
  git -C /repo checkout -- .
  echo \"\$n \$p exit=\$rc \$(grep -m1 -o 'class=[a-z-]*' $S/\$n.log)\"
done
" | tee $S/results.txt
rm -rf $S/repo $S/verif
