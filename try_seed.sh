#!/bin/bash
# usage: try_seed.sh <patch.diff> <check-id>... ; applies the patch to /repo, runs quick checks, reverts.
patch="$1"; shift
cd /repo || exit 2
if ! git apply --check "$patch" 2>/dev/null; then echo "PATCH DOES NOT APPLY"; git apply --check "$patch"; exit 3; fi
git apply "$patch"
git diff --stat | tail -1
cd /verif
for id in "$@"; do
  tier=quick
  case "$id" in *:thorough) tier=thorough; id="${id%%:*}";; esac
  start=$(date +%s)
  ./check "$id" $tier --no-evidence > /tmp/try_seed_$id.log 2>&1
  rc=$?
  echo "== $id $tier exit=$rc ($(( $(date +%s) - start ))s)"
  grep -E "^violation|^VIOLATION|HARNESS|quick:|thorough:" /tmp/try_seed_$id.log | cut -c1-700 | head -6
done
git -C /repo checkout -- .
git -C /repo status --short | head -3
