#!/bin/bash
# usage: iso_run.sh <tag> <command...>
# Runs a command against scratch copies of /repo and /verif bind-mounted over the
# originals in a private mount namespace (the real trees are never touched and may
# be edited meanwhile). Output: /tmp/iso-<tag>/out.txt ; the copies are removed afterwards.
tag="$1"; shift
S=/tmp/iso-$tag
rm -rf $S; mkdir -p $S
rsync -a --exclude target /repo/ $S/repo/
# (a seeded patch may be applied to /repo's working tree at this very moment: the copy starts from the committed state)
git -C $S/repo checkout -q -- . 2>/dev/null
rsync -a --exclude replays /verif/ $S/verif/
unshare -m bash -c "mount --bind $S/repo /repo && mount --bind $S/verif /verif || exit 2; cd /verif; $*" > $S/out.txt 2>&1
rc=$?
mkdir -p $S/replays; cp -r $S/verif/replays/. $S/replays/ 2>/dev/null
rm -rf $S/repo $S/verif
exit $rc
