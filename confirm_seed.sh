#!/bin/bash
# usage: confirm_seed.sh <name> <crate> <demo-test-file> [extra cargo test args...]
# Confirms a seeded change in its scratch worktree /tmp/seed/<name> (patch applied there):
#  1. the pinned-suite crates still pass with the change,
#  2. the demonstration fails with the change,
#  3. the demonstration passes without it.
# Writes /tmp/seed/out/<name>/confirm.log and prints a verdict line.
name="$1"; crate="$2"; demo="$3"; shift 3
W=/tmp/seed/$name; D=/tmp/seed/out/$name
export CARGO_NET_OFFLINE=true
log=$D/confirm.log; : > $log
cd $W || exit 2
git diff > $D/patch.check.diff
if ! diff -q <(git diff) $D/patch.diff >/dev/null; then echo "note: worktree diff differs from patch.diff" >> $log; fi
echo "## existing tests with the change" >> $log
cargo test --offline -p yash-semantics -p yash-builtin -p yash-env -p yash-syntax -p yash-executor -p yash-arith -p yash-fnmatch -p yash-quote -p yash-prompt >> $log 2>&1
t_rc=$?
fails=$(grep -c "^test .* FAILED" $log)
echo "existing tests rc=$t_rc failed_tests=$fails" >> $log
test_name=$(basename $demo .rs)
mkdir -p $W/$crate/tests && cp $D/demo/$demo $W/$crate/tests/
echo "## demo WITH change" >> $log
cargo test --offline -p $crate "$@" --test $test_name >> $log 2>&1; with_rc=$?
git diff > $D/worktree.diff; git apply -R $D/worktree.diff
echo "## demo WITHOUT change" >> $log
cargo test --offline -p $crate "$@" --test $test_name >> $log 2>&1; without_rc=$?
git apply $D/worktree.diff
rm -f $W/$crate/tests/$demo; rmdir $W/$crate/tests 2>/dev/null
echo "VERDICT $name existing_tests_rc=$t_rc failed=$fails demo_with_change_rc=$with_rc demo_without_change_rc=$without_rc" | tee -a $log
