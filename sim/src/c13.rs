//! C13 - children are started, awaited and reaped correctly under every
//! schedule.
//!
//! Race-free-by-construction programs; a small reference interpreter of the
//! generator's AST computes the expected stdout and every `$?`; each program
//! is executed under the FIFO baseline and many seeded schedules with
//! preemption and short I/O.

use crate::harness::{Failure, Prop, Stats, Tier, hash_str};
use crate::rng::{Decider, Decision, Rng, fnv_combine};
use crate::shellrun::{Observed, ScriptSpec, history_tail, run_script};
use crate::sim::{SimConfig, Strategy};
use serde::{Deserialize, Serialize};
use serde_json::{Value, json};
use std::collections::{BTreeMap, BTreeSet};

#[derive(Clone, Debug, Serialize, Deserialize, PartialEq)]
pub enum W {
    Pid(u32),
    All,
    Unknown,
    /// several operands: Some(job id) or None (an unknown pid)
    Multi(Vec<Option<u32>>),
}

#[derive(Clone, Debug, Serialize, Deserialize, PartialEq)]
pub enum Xf {
    /// `relay B`
    Relay(u32),
    /// `while read l; do echo "tK:$l"; done`
    Tag(u32),
    /// count lines
    Count,
}

#[derive(Clone, Debug, Serialize, Deserialize, PartialEq)]
pub enum N {
    Echo(String),
    Rc(u8),
    Qm,
    Pipe {
        neg: bool,
        first: Vec<N>,
        /// later stages: transform of stdin, then tail nodes
        rest: Vec<(Xf, Vec<N>)>,
    },
    Sub {
        body: Vec<N>,
        exit: Option<u8>,
    },
    Cs {
        var: u32,
        body: Vec<N>,
        /// 0 `v=$(body)`, the status is the body's; 1 two substitutions in one
        /// word of a command, `echo "v=[$(body)]$(rc 9)"`: two children, both
        /// reaped, the status is the command's; 2 the substitution's shell
        /// leaves an asynchronous grandchild behind that still holds the pipe,
        /// `v=$(body; { nap 3; echo late; } &)`: the text ends when the
        /// grandchild is done; 3 the output is larger than a pipe holds,
        /// `v=$(body; gen 1500 K 400 6 0)`: the shell has to read while the
        /// child is still writing
        #[serde(default)]
        form: u8,
    },
    Bg {
        id: u32,
        body: Vec<N>,
        exit: u8,
    },
    Wait(W),
    /// `cat out_<id>` and the `$!` identity check
    Show(u32),
    If {
        cond: u8,
        then: Vec<N>,
        els: Vec<N>,
    },
    For {
        n: u8,
        body: Vec<N>,
    },
    Def {
        f: u32,
        body: Vec<N>,
    },
    Call(u32),
    /// `nap MS` (simulated time; no output)
    Nap(u32),
    /// a foreground child kills itself: kind 0 `( echo w; selfkill S; echo NEVER )`,
    /// 1 `v=$(echo w; selfkill S)`, 2 `{ echo w; selfkill S; } | relay 3`
    SelfKill {
        kind: u8,
        sig: u8,
        word: String,
    },
    /// an asynchronous pipeline: `echo w | { relay 3; rc N; } >out & p=$!; wait $p`
    BgPipe {
        id: u32,
        word: String,
        status: u8,
    },
    /// a job that sleeps "forever" is killed by the parent and awaited:
    /// `{ echo started; nap 100000; echo NEVER; } >out & p=$!; kill -s SIG $p; wait $p`
    Killed {
        id: u32,
        sig: u8,
    },
    /// a pipeline whose last command exits without reading what the first one
    /// (more than a pipe holds) writes: `gen N 1 512 0 0 | { echo W; rc S; }`
    EarlyExitPipe {
        n: u32,
        status: u8,
        word: String,
    },
    /// an asynchronous and-or list:
    /// `: >out; rc S && echo W >>out & p=$!; wait $p; echo "?=$?"; cat out`
    BgAndOr {
        id: u32,
        first: u8,
        word: String,
    },
    /// an orphan: a subshell starts an asynchronous job and exits without
    /// waiting; the job finishes later (simulated time) with nobody to reap it:
    /// `( { nap K; echo W >orph_ID; } & ); nap K+5; cat orph_ID`
    Orphan {
        id: u32,
        nap: u32,
        word: String,
    },
    /// the `wait` built-in interrupted by a trapped signal while children other
    /// than the awaited one change state at the same (simulated) time: a job
    /// that runs "forever", a child that sends USR1 to the shell at t=2 and one
    /// that exits at t=2; the trap action kills the awaited job. `wait` returns
    /// a status > 128 at once, the action runs, the second `wait` reports the
    /// kill. (Main shell only, programs without the USR1 trap of `Kp`.)
    WaitTrap {
        id: u32,
    },
    /// a pipeline (no job control) whose first command stops itself and is
    /// continued later by a helper job: the shell goes on waiting for it - a
    /// stopped command has not finished - and reaps it when it has exited:
    /// `{ nap 5; read p <pf; kill -s CONT $p; } & h=$!; { mypid >pf; selfstop; echo W; exit S; } | relay 3; echo "?=$?"; wait $h`
    StopPipe {
        id: u32,
        status: u8,
        word: String,
    },
    /// `eval 'BODY'` or `command eval 'BODY'`: the commands run in the current
    /// shell, inside a built-in (`command` is not marked as handling signals
    /// itself: in an interactive shell the children are awaited next to the
    /// helper that records caught signals)
    Ev {
        body: Vec<N>,
        cmd: bool,
    },
    /// `kill -s USR1 $$`: a signal for which the main shell has a trap with an
    /// invisible action (`trap : USR1`). Only generated in programs without
    /// asynchronous jobs, so that the sender is always a foreground child (or
    /// the main shell itself) and no `wait` built-in can be interrupted.
    Kp,
}

#[derive(Clone, Debug, Serialize, Deserialize)]
pub struct Case {
    pub nodes: Vec<N>,
    pub pipefail: bool,
    pub dash_c: bool,
    /// the main shell traps SIGUSR1 (`trap : USR1`); children send it (`Kp`)
    #[serde(default)]
    pub sigpar: bool,
    /// the main shell has a command trap for TERM and HUP (`trap : TERM HUP`):
    /// every child starts with these signals blocked and caught until it has
    /// reset the traps, so a signal sent to a young child stays pending
    #[serde(default)]
    pub trapterm: bool,
    /// the shell controls jobs (`sh -m`): every foreground command and every
    /// asynchronous job is a process group of its own, the terminal is handed
    /// over and taken back; results are the same
    #[serde(default)]
    pub job_control: bool,
    /// the shell is interactive (`sh -i -c ...`): built-ins of the main shell
    /// run next to a helper that watches for SIGINT and records other caught
    /// signals, asynchronous jobs are announced on stderr
    #[serde(default)]
    pub interactive: bool,
    /// engine (k): a process-table history instead of a program
    #[serde(default)]
    pub khist: Option<crate::procs::KHist>,
}

// ---------------------------------------------------------------- generation

struct Gen<'a> {
    rng: &'a mut Rng,
    next_id: u32,
    next_var: u32,
    next_fn: u32,
    word: u32,
    funcs: Vec<u32>,
    budget: i32,
    /// an interactive shell ignores SIGTERM, and so does a child until it has
    /// reset its dispositions: a TERM sent to a young child may be discarded
    /// (a race of the script, as in any shell), so these programs use HUP / KILL
    interactive: bool,
    sigpar: bool,
    /// jobs of enclosing shell processes whose `$p_N` is set when the child
    /// being generated starts: the child inherits the variable, not the job
    outer_jobs: Vec<u32>,
}

impl Gen<'_> {
    fn word(&mut self) -> String {
        self.word += 1;
        format!("w{}", self.word)
    }

    /// A block in which every job started is also waited for ("closed").
    fn block(&mut self, depth: u32, max_len: u32, allow_bg: bool) -> Vec<N> {
        let len = self.rng.range(1, max_len);
        let mut out = Vec::new();
        let mut open: Vec<u32> = Vec::new(); // jobs known to the shell
        let mut shown: BTreeSet<u32> = BTreeSet::new();
        for _ in 0..len {
            if self.budget <= 0 {
                break;
            }
            self.budget -= 1;
            let choice = self.rng.below(100);
            match choice {
                0..=17 if self.sigpar && self.rng.below(3) == 0 => out.push(N::Kp),
                0..=17 => {
                    let w = self.word();
                    out.push(N::Echo(w));
                }
                18..=24 => {
                    let n = *self.rng.pick(&[0u8, 0, 1, 2, 3, 7, 42, 126, 127, 255]);
                    out.push(N::Rc(n));
                    out.push(N::Qm);
                }
                31 if allow_bg && depth == 0 && !self.sigpar => {
                    self.next_id += 1;
                    out.push(N::WaitTrap { id: self.next_id });
                }
                30 if allow_bg && depth == 0 => {
                    self.next_id += 1;
                    let word = self.word();
                    out.push(N::Orphan {
                        id: self.next_id,
                        nap: self.rng.range(1, 10),
                        word,
                    });
                    out.push(N::Qm);
                }
                25..=27 if !self.outer_jobs.is_empty() => {
                    // waiting for a job of the parent shell: not a child of
                    // this process, so 127 whatever state the job is in
                    let id = *self.rng.pick(&self.outer_jobs);
                    out.push(N::Wait(W::Pid(id)));
                    out.push(N::Qm);
                }
                25..=30 => out.push(N::Qm),
                31..=48 if depth < 3 => {
                    let saved = self.outer_jobs.clone();
                    self.outer_jobs.extend(open.iter().copied());
                    let node = self.pipe(depth + 1);
                    self.outer_jobs = saved;
                    out.push(node);
                    out.push(N::Qm);
                }
                49..=56 if depth < 3 => {
                    let saved = self.outer_jobs.clone();
                    self.outer_jobs.extend(open.iter().copied());
                    let body = self.block(depth + 1, 3, allow_bg);
                    self.outer_jobs = saved;
                    let exit = if self.rng.bool() {
                        Some(*self.rng.pick(&[0u8, 1, 3, 5, 200]))
                    } else {
                        None
                    };
                    out.push(N::Sub { body, exit });
                    out.push(N::Qm);
                }
                57..=64 if depth < 3 => {
                    let saved = self.outer_jobs.clone();
                    self.outer_jobs.extend(open.iter().copied());
                    let body = self.block(depth + 1, 3, false);
                    self.outer_jobs = saved;
                    self.next_var += 1;
                    let form = *self.rng.pick(&[0u8, 0, 0, 1, 2, 3]);
                    out.push(N::Cs {
                        var: self.next_var,
                        body,
                        form,
                    });
                    out.push(N::Qm);
                }
                65..=80 if allow_bg && depth < 2 => {
                    self.next_id += 1;
                    let id = self.next_id;
                    let saved = self.outer_jobs.clone();
                    self.outer_jobs.extend(open.iter().copied());
                    let mut body = self.block(depth + 1, 3, depth == 0);
                    self.outer_jobs = saved;
                    // some jobs take (simulated) time, so that they are still
                    // running when the parent reaches its `wait`
                    if self.rng.below(3) == 0 {
                        let at = self.rng.below(body.len() as u32 + 1) as usize;
                        body.insert(at, N::Nap(self.rng.range(1, 20)));
                    }
                    let exit = *self.rng.pick(&[0u8, 1, 2, 3, 9, 77, 130, 255]);
                    out.push(N::Bg { id, body, exit });
                    open.push(id);
                    if self.rng.below(3) == 0 {
                        out.push(N::Qm);
                    }
                }
                82 if depth < 3 && self.rng.bool() => {
                    let word = self.word();
                    out.push(N::EarlyExitPipe {
                        n: *self.rng.pick(&[1025u32, 1537, 3000, 5000]),
                        status: *self.rng.pick(&[0u8, 0, 3]),
                        word,
                    });
                    out.push(N::Qm);
                }
                82 if depth < 3 => {
                    let word = self.word();
                    out.push(N::SelfKill {
                        kind: self.rng.below(3) as u8,
                        sig: *self.rng.pick(&[9u8, 15, 1]),
                        word,
                    });
                    out.push(N::Qm);
                }
                81 if allow_bg && depth < 2 && self.rng.bool() => {
                    self.next_id += 1;
                    let word = self.word();
                    out.push(N::BgAndOr {
                        id: self.next_id,
                        first: *self.rng.pick(&[0u8, 0, 1, 5]),
                        word,
                    });
                }
                81 if allow_bg && depth < 2 => {
                    self.next_id += 1;
                    let word = self.word();
                    out.push(N::BgPipe {
                        id: self.next_id,
                        word,
                        status: *self.rng.pick(&[0u8, 3, 7]),
                    });
                }
                83 if allow_bg && depth < 2 => {
                    self.next_id += 1;
                    out.push(N::Killed {
                        id: self.next_id,
                        sig: if self.interactive { *self.rng.pick(&[9u8, 1, 1, 1]) } else { *self.rng.pick(&[9u8, 15, 15, 1]) },
                    });
                    out.push(N::Qm);
                }
                84..=87 if !open.is_empty() => {
                    // wait for one known job
                    let k = self.rng.below(open.len() as u32) as usize;
                    let id = open.remove(k);
                    out.push(N::Wait(W::Pid(id)));
                    out.push(N::Qm);
                    if self.rng.below(4) != 0 {
                        out.push(N::Show(id));
                        shown.insert(id);
                    }
                    if self.rng.below(6) == 0 {
                        // waiting again for a forgotten job: unknown pid => 127
                        out.push(N::Wait(W::Pid(id)));
                        out.push(N::Qm);
                    }
                }
                88..=91 if !open.is_empty() => {
                    // wait with several operands, unknown pids mixed in; the
                    // status is that of the last operand, all are awaited
                    let mut ops: Vec<Option<u32>> = open.drain(..).map(Some).collect();
                    let n_unknown = self.rng.range(1, 2);
                    for _ in 0..n_unknown {
                        let at = self.rng.below(ops.len() as u32 + 1) as usize;
                        ops.insert(at, None);
                    }
                    let ids: Vec<u32> = ops.iter().flatten().copied().collect();
                    out.push(N::Wait(W::Multi(ops)));
                    out.push(N::Qm);
                    for id in ids {
                        out.push(N::Show(id));
                    }
                }
                91..=93 => {
                    out.push(N::Wait(W::Unknown));
                    out.push(N::Qm);
                }
                94..=95 if depth < 2 => {
                    let then = self.block(depth + 1, 2, false);
                    let els = if self.rng.bool() {
                        self.block(depth + 1, 2, false)
                    } else {
                        Vec::new()
                    };
                    out.push(N::If {
                        cond: *self.rng.pick(&[0u8, 1]),
                        then,
                        els,
                    });
                    out.push(N::Qm);
                }
                96..=97 if depth < 2 => {
                    let body = self.block(depth + 1, 2, allow_bg);
                    out.push(N::For {
                        n: self.rng.range(1, 3) as u8,
                        body,
                    });
                    out.push(N::Qm);
                }
                98 if depth == 0 => {
                    self.next_fn += 1;
                    let f = self.next_fn;
                    let body = self.block(depth + 1, 3, allow_bg);
                    out.push(N::Def { f, body });
                    self.funcs.push(f);
                }
                99 if !self.funcs.is_empty() => {
                    let f = *self.rng.pick(&self.funcs);
                    out.push(N::Call(f));
                    out.push(N::Qm);
                }
                _ if depth < 2 && self.rng.below(4) == 0 => {
                    let body = self.block(depth + 1, 3, allow_bg);
                    out.push(N::Ev { body, cmd: self.rng.below(3) != 0 });
                    out.push(N::Qm);
                }
                _ => {
                    let w = self.word();
                    out.push(N::Echo(w));
                }
            }
        }
        // close the block: wait for everything still known
        if !open.is_empty() {
            if self.rng.bool() {
                out.push(N::Wait(W::All));
                out.push(N::Qm);
                for id in open.drain(..) {
                    if self.rng.bool() {
                        out.push(N::Show(id));
                    }
                }
            } else {
                for id in open.drain(..) {
                    out.push(N::Wait(W::Pid(id)));
                    out.push(N::Qm);
                    out.push(N::Show(id));
                }
            }
        }
        if out.is_empty() {
            out.push(N::Echo(self.word()));
        }
        out
    }

    fn pipe(&mut self, depth: u32) -> N {
        let stages = self.rng.range(2, 4);
        let first = self.block(depth, 3, false);
        let mut rest = Vec::new();
        for k in 1..stages {
            let xf = match self.rng.below(4) {
                0 => Xf::Relay(*self.rng.pick(&[1u32, 3, 64, 512, 2000])),
                1 | 2 => Xf::Tag(k),
                _ => Xf::Count,
            };
            let mut tail = Vec::new();
            if self.rng.below(3) == 0 {
                tail.push(N::Echo(self.word()));
            }
            if self.rng.below(2) == 0 {
                tail.push(N::Rc(*self.rng.pick(&[0u8, 0, 1, 4, 9])));
            }
            rest.push((xf, tail));
        }
        N::Pipe {
            neg: self.rng.below(5) == 0,
            first,
            rest,
        }
    }
}

pub fn generate(rng: &mut Rng, tier: Tier) -> Case {
    let budget = match tier {
        Tier::Quick => rng.range(4, 14) as i32,
        Tier::Thorough => rng.range(4, 25) as i32,
    };
    let sigpar = rng.below(5) == 0;
    let interactive = rng.below(5) == 0;
    let mut g = Gen {
        rng,
        interactive,
        sigpar,
        outer_jobs: Vec::new(),
        next_id: 0,
        next_var: 0,
        next_fn: 0,
        word: 0,
        funcs: Vec::new(),
        budget,
    };
    // top level: jobs may be left un-waited at the end
    let mut nodes = g.block(0, 8, !sigpar);
    // occasionally leave a trailing job unwaited
    if !sigpar && g.rng.below(4) == 0 {
        g.next_id += 1;
        let id = g.next_id;
        let body = vec![N::Echo(g.word())];
        nodes.push(N::Bg { id, body, exit: 5 });
        if g.rng.bool() {
            nodes.push(N::Echo(g.word()));
        }
    }
    let pipefail = g.rng.below(3) == 0;
    let dash_c = g.rng.bool();
    let trapterm = !sigpar && g.rng.below(3) == 0;
    let job_control = !interactive && g.rng.below(6) == 0;
    if !interactive && !job_control && !sigpar && g.rng.below(6) == 0 {
        g.next_id += 1;
        let (id, word) = (g.next_id, g.word());
        nodes.push(N::StopPipe {
            id,
            status: *g.rng.pick(&[0u8, 5, 9]),
            word,
        });
    }
    Case {
        nodes,
        pipefail,
        // (an interactive shell reading commands from its standard input
        // prints prompts; `-c` keeps stderr to the job announcements)
        dash_c: dash_c || interactive,
        sigpar,
        trapterm,
        interactive,
        job_control,
        khist: None,
    }
}

// ------------------------------------------------------------------ rendering

fn render_block(nodes: &[N], out: &mut String, sep: &str) {
    for n in nodes {
        render(n, out, sep);
        out.push_str(sep);
    }
}

fn inline(nodes: &[N]) -> String {
    let mut s = String::new();
    render_block(nodes, &mut s, "; ");
    s
}

fn render(n: &N, out: &mut String, _sep: &str) {
    match n {
        N::Echo(w) => out.push_str(&format!("echo {w}")),
        N::Rc(k) => out.push_str(&format!("rc {k}")),
        N::Qm => out.push_str("echo \"?=$?\""),
        N::Pipe { neg, first, rest } => {
            if *neg {
                out.push_str("! ");
            }
            out.push_str(&format!("{{ {}}}", inline(first)));
            for (xf, tail) in rest {
                out.push_str(" | { ");
                match xf {
                    Xf::Relay(b) => out.push_str(&format!("relay {b}; ")),
                    Xf::Tag(k) => {
                        out.push_str(&format!("while read l; do echo \"t{k}:$l\"; done; "))
                    }
                    Xf::Count => out.push_str(
                        "n=0; while read l; do n=$((n+1)); done; echo \"count=$n\"; ",
                    ),
                }
                out.push_str(&inline(tail));
                out.push('}');
            }
        }
        N::Sub { body, exit } => {
            out.push_str(&format!("( {}", inline(body)));
            if let Some(e) = exit {
                out.push_str(&format!("exit {e}; "));
            }
            out.push(')');
        }
        N::Cs { var, body, form: 1 } => {
            out.push_str(&format!("echo \"v{var}=[$( {})]$(rc 9)\"", inline(body)));
        }
        N::Cs { var, body, form: 2 } => {
            out.push_str(&format!(
                "v{var}=$( {}{{ nap 3; echo late; }} & ); s=$?; echo \"v{var}=[$v{var}]\"; rc $s",
                inline(body)
            ));
        }
        N::Cs { var, body, form: 3 } => {
            out.push_str(&format!(
                "v{var}=$( {}gen 1500 {var} 400 6 0 ); s=$?; echo \"v{var}=[$v{var}]\"; rc $s",
                inline(body)
            ));
        }
        N::Cs { var, body, .. } => {
            out.push_str(&format!(
                "v{var}=$( {}); s=$?; echo \"v{var}=[$v{var}]\"; rc $s",
                inline(body)
            ));
        }
        N::Bg { id, body, exit } => {
            out.push_str(&format!(
                "{{ pgcheck; mypid >pid_{id}; {}exit {exit}; }} >out_{id} & p_{id}=$!",
                inline(body)
            ));
        }
        N::Wait(W::Pid(id)) => out.push_str(&format!("wait $p_{id}")),
        N::Wait(W::All) => out.push_str("wait"),
        N::Wait(W::Unknown) => out.push_str("wait 99999"),
        N::Wait(W::Multi(ops)) => {
            out.push_str("wait");
            for (i, o) in ops.iter().enumerate() {
                match o {
                    Some(id) => out.push_str(&format!(" $p_{id}")),
                    None => out.push_str(&format!(" {}", 99990 + i)),
                }
            }
        }
        N::Show(id) => out.push_str(&format!(
            "cat out_{id}; read q <pid_{id}; case \"$q\" in \"$p_{id}\") echo pid_ok;; *) echo pid_DIFF \"$q\" \"$p_{id}\";; esac"
        )),
        N::If { cond, then, els } => {
            out.push_str(&format!("if rc {cond}; then {}", inline(then)));
            if !els.is_empty() {
                out.push_str(&format!("else {}", inline(els)));
            }
            out.push_str("fi");
        }
        N::For { n, body } => {
            let items: Vec<String> = (1..=*n).map(|i| i.to_string()).collect();
            out.push_str(&format!(
                "for i in {}; do {}done",
                items.join(" "),
                inline(body)
            ));
        }
        N::Ev { body, cmd } => out.push_str(&format!("{}eval '{}'", if *cmd { "command " } else { "" }, inline(body).replace('\'', "'\\''"))),
        N::Def { f, body } => out.push_str(&format!("f{f}() {{ {}}}", inline(body))),
        N::Nap(ms) => out.push_str(&format!("nap {ms}")),
        N::SelfKill { kind, sig, word } => {
            let name = match sig {
                9 => "KILL",
                15 => "TERM",
                _ => "HUP",
            };
            match kind {
                0 => out.push_str(&format!("( echo {word}; selfkill {name}; echo NEVER )")),
                1 => out.push_str(&format!("sk=$(echo {word}; selfkill {name}; echo NEVER); s=$?; echo \"sk=[$sk]\"; rc $s")),
                _ => out.push_str(&format!("{{ echo {word}; selfkill {name}; echo NEVER; }} | relay 3")),
            }
        }
        N::BgPipe { id, word, status } => out.push_str(&format!(
            "echo {word} | {{ relay 3; rc {status}; }} >out_{id} & p_{id}=$!; wait $p_{id}; echo \"?=$?\"; cat out_{id}"
        )),
        N::Killed { id, sig } => out.push_str(&format!(
            "{{ echo started; nap 100000; echo NEVER; exit 1; }} >out_{id} & p_{id}=$!; kill -s {} $p_{id}; wait $p_{id}",
            match sig {
                9 => "KILL",
                15 => "TERM",
                _ => "HUP",
            }
        )),
        N::Call(f) => out.push_str(&format!("f{f}")),
        N::Kp => out.push_str("kill -s USR1 $$"),
        N::WaitTrap { id } => out.push_str(&format!(
            "trap 'kill -s KILL $w_{id}' USR1; {{ nap 100000; }} & w_{id}=$!; {{ nap 2; kill -s USR1 $$; }} & s_{id}=$!; {{ nap 2; exit 0; }} & q_{id}=$!; wait $w_{id}; echo \"?=$(($?>128))\"; wait $w_{id}; echo \"?=$?\"; wait $s_{id} $q_{id}; trap - USR1"
        )),
        N::StopPipe { id, status, word } => out.push_str(&format!(
            "{{ nap 5; read p <pf_{id}; kill -s CONT $p; }} & h_{id}=$!; {{ mypid >pf_{id}; selfstop; echo {word}; exit {status}; }} | relay 3; echo \"?=$?\"; wait $h_{id}"
        )),
        N::EarlyExitPipe { n, status, word } => out.push_str(&format!("gen {n} 1 512 0 0 | {{ echo {word}; rc {status}; }}")),
        N::BgAndOr { id, first, word } => out.push_str(&format!(
            ": >out_{id}; rc {first} && echo {word} >>out_{id} & p_{id}=$!; wait $p_{id}; echo \"?=$?\"; cat out_{id}"
        )),
        N::Orphan { id, nap, word } => out.push_str(&format!(
            "( {{ nap {nap}; echo {word} >orph_{id}; }} & ); nap {}; cat orph_{id}",
            nap + 5
        )),
    }
}

pub fn render_case(c: &Case) -> String {
    let mut s = String::new();
    if c.pipefail {
        s.push_str("set -o pipefail\n");
    }
    if c.sigpar {
        s.push_str("trap : USR1\n");
    }
    if c.trapterm {
        s.push_str("trap : TERM HUP\n");
    }
    render_block(&c.nodes, &mut s, "\n");
    // whatever the program did, the shell ends with the descriptors it began
    // with (written to a file first: under crash injection an orphan may still
    // be writing to the shared standard output)
    s.push_str("fds >fds_final\ncat fds_final\n");
    s
}

// ------------------------------------------------------- reference interpreter

#[derive(Clone, Default)]
struct Job {
    out: Vec<String>,
    exit: u8,
    known: bool,
}

#[derive(Clone, Default)]
struct Ctx {
    out: Vec<String>,
    status: u32,
    jobs: BTreeMap<u32, Job>,
    funcs: BTreeMap<u32, Vec<N>>,
    pipefail: bool,
    /// ids of jobs whose parent (this context) never waited for them
    unwaited: BTreeSet<u32>,
}

impl Ctx {
    fn child(&self) -> Ctx {
        Ctx {
            out: Vec::new(),
            status: self.status,
            // a subshell does not know the parent's jobs
            jobs: BTreeMap::new(),
            funcs: self.funcs.clone(),
            pipefail: self.pipefail,
            unwaited: BTreeSet::new(),
        }
    }
}

fn eval_block(nodes: &[N], cx: &mut Ctx) {
    for n in nodes {
        eval(n, cx);
    }
}

fn eval(n: &N, cx: &mut Ctx) {
    match n {
        N::Echo(w) => {
            cx.out.push(w.clone());
            cx.status = 0;
        }
        N::Rc(k) => cx.status = *k as u32,
        N::Qm => {
            cx.out.push(format!("?={}", cx.status));
            cx.status = 0;
        }
        N::Pipe { neg, first, rest } => {
            let mut c0 = cx.child();
            eval_block(first, &mut c0);
            let mut data = c0.out;
            let mut statuses: Vec<u32> = vec![c0.status];
            for (xf, tail) in rest {
                let mut c = cx.child();
                match xf {
                    Xf::Relay(_) => c.out = data.clone(),
                    Xf::Tag(k) => c.out = data.iter().map(|l| format!("t{k}:{l}")).collect(),
                    Xf::Count => c.out = vec![format!("count={}", data.len())],
                }
                // status after the transform: relay -> 0; while loop -> 0 (read
                // fails at EOF, loop status is that of the last body command or 0);
                // count: echo -> 0
                c.status = 0;
                eval_block(tail, &mut c);
                data = c.out;
                statuses.push(c.status);
            }
            cx.out.extend(data);
            let mut st = *statuses.last().unwrap();
            if cx.pipefail {
                st = statuses.iter().rev().find(|s| **s != 0).copied().unwrap_or(0);
            }
            if *neg {
                st = if st == 0 { 1 } else { 0 };
            }
            cx.status = st;
        }
        N::Sub { body, exit } => {
            let mut c = cx.child();
            eval_block(body, &mut c);
            cx.out.extend(c.out);
            cx.status = exit.map_or(c.status, |e| e as u32);
        }
        N::Cs { var, body, form } => {
            let mut c = cx.child();
            eval_block(body, &mut c);
            if *form == 2 {
                c.out.push("late".into());
                c.status = 0;
            }
            if *form == 1 {
                c.status = 0;
            }
            if *form == 3 {
                c.out.push(String::from_utf8_lossy(&crate::probes::stream_bytes(*var as u64, 1500, 6)).into_owned());
                c.status = 0;
            }
            let mut text = c.out.join("\n");
            while text.ends_with('\n') {
                text.pop();
            }
            // echo "v=[...]" prints the text, possibly spanning lines
            let shown = format!("v{var}=[{text}]");
            for l in shown.split('\n') {
                cx.out.push(l.to_string());
            }
            cx.status = c.status;
        }
        N::Bg { id, body, exit } => {
            let mut c = cx.child();
            c.status = 0;
            eval_block(body, &mut c);
            cx.jobs.insert(
                *id,
                Job {
                    out: c.out,
                    exit: *exit,
                    known: true,
                },
            );
            cx.unwaited.insert(*id);
            cx.status = 0;
        }
        N::Wait(W::Pid(id)) => match cx.jobs.get_mut(id) {
            Some(j) if j.known => {
                j.known = false;
                cx.status = j.exit as u32;
                cx.unwaited.remove(id);
            }
            _ => cx.status = 127,
        },
        N::Wait(W::All) => {
            for (id, j) in cx.jobs.iter_mut() {
                if j.known {
                    cx.unwaited.remove(id);
                }
                j.known = false;
            }
            cx.status = 0;
        }
        N::Wait(W::Unknown) => cx.status = 127,
        N::Wait(W::Multi(ops)) => {
            for o in ops {
                match o {
                    Some(id) => match cx.jobs.get_mut(id) {
                        Some(j) if j.known => {
                            j.known = false;
                            cx.status = j.exit as u32;
                            cx.unwaited.remove(id);
                        }
                        _ => cx.status = 127,
                    },
                    None => cx.status = 127,
                }
            }
        }
        N::Show(id) => {
            let lines = cx.jobs.get(id).map(|j| j.out.clone()).unwrap_or_default();
            cx.out.extend(lines);
            cx.out.push("pid_ok".into());
            cx.status = 0;
        }
        N::If { cond, then, els } => {
            if *cond == 0 {
                cx.status = 0;
                eval_block(then, cx);
            } else if !els.is_empty() {
                cx.status = *cond as u32;
                eval_block(els, cx);
            } else {
                cx.status = 0;
            }
        }
        N::For { n, body } => {
            // ($? inside the first iteration is still that of the previous command)
            if *n == 0 {
                cx.status = 0;
            }
            for _ in 0..*n {
                eval_block(body, cx);
            }
        }
        N::Ev { body, .. } => eval_block(body, cx),
        N::Def { f, body } => {
            cx.funcs.insert(*f, body.clone());
            cx.status = 0;
        }
        N::Call(f) => {
            let body = cx.funcs.get(f).cloned().unwrap_or_default();
            eval_block(&body, cx);
        }
        N::Nap(_) | N::Kp => cx.status = 0,
        N::WaitTrap { .. } => {
            cx.out.push("?=1".into());
            cx.out.push("?=393".into());
            cx.status = 0;
        }
        N::Orphan { word, .. } => {
            cx.out.push(word.clone());
            cx.status = 0;
        }
        N::StopPipe { status, word, .. } => {
            cx.out.push(word.clone());
            cx.out.push(format!("?={}", if cx.pipefail { *status } else { 0 }));
            cx.status = 0;
        }
        N::EarlyExitPipe { status, word, .. } => {
            cx.out.push(word.clone());
            // the writer cannot finish: it fails (status 1) once the reader is gone
            cx.status = if *status != 0 { *status as u32 } else if cx.pipefail { 1 } else { 0 };
        }
        N::BgAndOr { first, word, .. } => {
            cx.out.push(format!("?={first}"));
            if *first == 0 {
                cx.out.push(word.clone());
            }
            cx.status = 0;
        }
        N::SelfKill { kind, sig, word } => {
            match kind {
                0 => {
                    cx.out.push(word.clone());
                    cx.status = 384 + *sig as u32;
                }
                1 => {
                    cx.out.push(format!("sk=[{word}]"));
                    cx.status = 384 + *sig as u32;
                }
                _ => {
                    // the killed stage is not the last one: status of relay (0),
                    // or the stage's status under pipefail
                    cx.out.push(word.clone());
                    cx.status = if cx.pipefail { 384 + *sig as u32 } else { 0 };
                }
            }
        }
        N::BgPipe { word, status, .. } => {
            cx.out.push(format!("?={status}"));
            cx.out.push(word.clone());
            cx.status = 0;
        }
        N::Killed { sig, .. } => {
            // a job killed by signal n reports 384 + n
            cx.status = 384 + *sig as u32;
        }
    }
}

pub struct Expect {
    pub stdout: String,
    pub status: u32,
    pub unwaited: BTreeSet<u32>,
}

pub fn expect(c: &Case) -> Expect {
    let mut cx = Ctx {
        pipefail: c.pipefail,
        ..Default::default()
    };
    eval_block(&c.nodes, &mut cx);
    cx.out.push(FDS_FINAL.into());
    let mut stdout = cx.out.join("\n");
    if !cx.out.is_empty() {
        stdout.push('\n');
    }
    Expect {
        stdout,
        // (the script ends with `cat fds_final`, whatever the program's last
        // status was - also in a program shortened by the minimiser)
        status: 0,
        unwaited: cx.unwaited,
    }
}

// ------------------------------------------------------------------ shrinking

fn ids_started(nodes: &[N], acc: &mut BTreeSet<u32>) {
    for n in nodes {
        if let N::Bg { id, .. } = n {
            acc.insert(*id);
        }
    }
}

/// Removes references to jobs / functions that no longer exist in scope.
fn repair(nodes: &mut Vec<N>, funcs: &mut BTreeSet<u32>) {
    let mut started = BTreeSet::new();
    let mut i = 0;
    while i < nodes.len() {
        let keep = match &mut nodes[i] {
            N::Bg { id, body, .. } => {
                started.insert(*id);
                let mut f = funcs.clone();
                repair(body, &mut f);
                true
            }
            N::Wait(W::Pid(id)) | N::Show(id) => started.contains(id),
            N::Wait(W::Multi(ops)) => {
                for o in ops.iter_mut() {
                    if let Some(id) = o
                        && !started.contains(id)
                    {
                        *o = None;
                    }
                }
                true
            }
            N::Def { f, body } => {
                let mut fs = funcs.clone();
                repair(body, &mut fs);
                funcs.insert(*f);
                true
            }
            N::Call(f) => funcs.contains(f),
            N::Pipe { first, rest, .. } => {
                repair(first, &mut funcs.clone());
                for (_, t) in rest.iter_mut() {
                    repair(t, &mut funcs.clone());
                }
                if first.is_empty() {
                    first.push(N::Echo("x".into()));
                }
                true
            }
            N::Sub { body, .. } | N::Cs { body, .. } | N::For { body, .. } | N::Ev { body, .. } => {
                repair(body, &mut funcs.clone());
                if body.is_empty() {
                    body.push(N::Echo("x".into()));
                }
                true
            }
            N::If { then, els, .. } => {
                repair(then, &mut funcs.clone());
                repair(els, &mut funcs.clone());
                if then.is_empty() {
                    then.push(N::Echo("x".into()));
                }
                true
            }
            _ => true,
        };
        if keep {
            i += 1;
        } else {
            nodes.remove(i);
        }
    }
    let _ = ids_started;
}

fn close_jobs(nodes: &mut Vec<N>) {
    // A block below top level must wait for what it started; at top level
    // leaving jobs is allowed, so nothing to do here. Nested blocks keep their
    // trailing waits unless those were removed explicitly; to stay race free we
    // simply never remove Wait nodes when shrinking (see `variants`).
    let _ = nodes;
}

/// All variants of `nodes` with exactly one node removed or simplified.
fn variants(nodes: &[N]) -> Vec<Vec<N>> {
    let mut out = Vec::new();
    for i in 0..nodes.len() {
        // removal (never remove waits: they keep the program race free)
        if !matches!(nodes[i], N::Wait(_)) {
            let mut v = nodes.to_vec();
            v.remove(i);
            out.push(v);
        }
        // recursive simplification
        let subs: Vec<N> = match &nodes[i] {
            N::Pipe { neg, first, rest } => {
                let mut r = Vec::new();
                for f in variants(first) {
                    r.push(N::Pipe {
                        neg: *neg,
                        first: f,
                        rest: rest.clone(),
                    });
                }
                if rest.len() > 1 {
                    for k in 0..rest.len() {
                        let mut rr = rest.clone();
                        rr.remove(k);
                        r.push(N::Pipe {
                            neg: *neg,
                            first: first.clone(),
                            rest: rr,
                        });
                    }
                }
                for k in 0..rest.len() {
                    if !rest[k].1.is_empty() {
                        let mut rr = rest.clone();
                        rr[k].1.clear();
                        r.push(N::Pipe {
                            neg: *neg,
                            first: first.clone(),
                            rest: rr,
                        });
                    }
                }
                if *neg {
                    r.push(N::Pipe {
                        neg: false,
                        first: first.clone(),
                        rest: rest.clone(),
                    });
                }
                r
            }
            N::Sub { body, exit } => variants(body)
                .into_iter()
                .map(|b| N::Sub {
                    body: b,
                    exit: *exit,
                })
                .collect(),
            N::Cs { var, body, form } => variants(body)
                .into_iter()
                .map(|b| N::Cs { var: *var, body: b, form: *form })
                .collect(),
            N::Bg { id, body, exit } => variants(body)
                .into_iter()
                .map(|b| N::Bg {
                    id: *id,
                    body: b,
                    exit: *exit,
                })
                .collect(),
            N::If { cond, then, els } => {
                let mut r: Vec<N> = variants(then)
                    .into_iter()
                    .map(|b| N::If {
                        cond: *cond,
                        then: b,
                        els: els.clone(),
                    })
                    .collect();
                r.extend(variants(els).into_iter().map(|b| N::If {
                    cond: *cond,
                    then: then.clone(),
                    els: b,
                }));
                r
            }
            N::For { n, body } => {
                let mut r: Vec<N> = variants(body)
                    .into_iter()
                    .map(|b| N::For { n: *n, body: b })
                    .collect();
                if *n > 1 {
                    r.push(N::For {
                        n: n - 1,
                        body: body.clone(),
                    });
                }
                r
            }
            N::Def { f, body } => variants(body)
                .into_iter()
                .map(|b| N::Def { f: *f, body: b })
                .collect(),
            N::Ev { body, cmd } => variants(body)
                .into_iter()
                .map(|b| N::Ev { body: b, cmd: *cmd })
                .collect(),
            _ => Vec::new(),
        };
        for s in subs {
            let mut v = nodes.to_vec();
            v[i] = s;
            out.push(v);
        }
    }
    out
}

// ------------------------------------------------------------------- checking

fn spec_of(c: &Case) -> ScriptSpec {
    ScriptSpec {
        script: render_case(c),
        dash_c: c.dash_c,
        options: if c.interactive {
            vec!["-i".into()]
        } else if c.job_control {
            vec!["-m".into()]
        } else {
            Vec::new()
        },
        ..Default::default()
    }
}

fn pid_of_job(obs: &Observed, id: u32) -> Option<i32> {
    let (_, _, content) = obs.files.get(&format!("/work/pid_{id}"))?;
    String::from_utf8_lossy(content).trim().parse().ok()
}

/// Checks one observed run against the expectation. Returns (class, key, detail).
pub fn check_run(c: &Case, exp: &Expect, obs: &Observed) -> Option<(String, String, String)> {
    check_run_opt(c, exp, obs, true)
}

/// `truth == false`: only the oracles that survive an injected fork failure
/// (termination, wait/exit consistency, no activity after death).
pub fn check_run_opt(c: &Case, exp: &Expect, obs: &Observed, truth: bool) -> Option<(String, String, String)> {
    if let Some(v) = crate::shellrun::check_liveness(obs) {
        return Some(v);
    }
    if let Some(e) = obs.history.iter().find(|e| e.kind == "jobcheck-fail") {
        let class = e.text.split(':').next().unwrap_or("invariant").to_string();
        return Some((class.clone(), class, e.text.clone()));
    }
    let o = &obs.outcome;
    let exp_relaxed;
    let exp = if truth {
        exp
    } else {
        // accept whatever was printed
        exp_relaxed = Expect {
            stdout: obs.stdout.clone(),
            status: obs.status.trim_start_matches("exited:").parse().unwrap_or(0),
            unwaited: exp.unwaited.clone(),
        };
        &exp_relaxed
    };
    let want_status = format!("exited:{}", exp.status);
    // (an interactive shell announces its asynchronous jobs as `[n] pid` and
    // reports their end as `[n] + Done ...`)
    let stderr_rest: String = obs
        .stderr
        .lines()
        .filter(|l| {
            !(c.interactive
                && l.strip_prefix('[')
                    .and_then(|r| r.split_once("] "))
                    .is_some_and(|(n, _)| n.parse::<u32>().is_ok()))
        })
        .collect::<Vec<_>>()
        .join("\n");
    if truth && (obs.stdout != exp.stdout || obs.status != want_status || !stderr_rest.is_empty()) {
        let key = if obs.stderr.contains("no job to wait for") {
            "truth:wait-echild-while-child-alive"
        } else {
            "truth"
        };
        return Some((
            "truth".into(),
            key.into(),
            format!(
                "expected stdout {:?} status {}\nobserved stdout {:?} status {}\nstderr {:?}",
                exp.stdout, want_status, obs.stdout, obs.status, obs.stderr
            ),
        ));
    }
    // history: wait results are true, not early, at most once
    let mut exits: BTreeMap<i64, (u64, i64)> = BTreeMap::new();
    let mut reaped: BTreeMap<i64, u32> = BTreeMap::new();
    // a process must not do anything after it exited or was killed
    let mut dead: BTreeMap<i32, (u64, String)> = BTreeMap::new();
    let final_status: BTreeMap<i32, i64> = o
        .procs
        .iter()
        .filter_map(|p| {
            let (kind, n) = p.state.split_once(':')?;
            let n: i64 = n.parse().ok()?;
            match kind {
                "exited" => Some((p.pid, n)),
                "signaled" => Some((p.pid, 384 + n)),
                _ => None,
            }
        })
        .collect();
    for e in &obs.history {
        if let Some((seq, how)) = dead.get(&e.pid)
            && matches!(e.kind.as_str(), "read" | "write" | "fork" | "kill" | "wait" | "exit" | "mark")
        {
            return Some((
                "ghost".into(),
                "ghost:runs-after-death".into(),
                format!(
                    "pid {} {how} at event #{seq} but performs `{}` (a={} b={}) at event #{}",
                    e.pid, e.kind, e.a, e.b, e.seq
                ),
            ));
        }
        if e.kind == "exit" {
            dead.insert(e.pid, (e.seq, format!("exited with {}", e.a)));
        }
        if e.kind == "kill" && e.a > 0 && matches!(e.b, 1 | 9 | 15) {
            if e.b == 9 || !c.trapterm {
                dead.insert(e.a as i32, (e.seq, format!("was killed by signal {} sent by pid {}", e.b, e.pid)));
                exits.entry(e.a).or_insert((e.seq, 384 + e.b));
            } else if let Some(st) = final_status.get(&(e.a as i32)) {
                // TERM/HUP may stay pending in a young child that still has the
                // parent's trap (blocked): the signal takes effect later, or an
                // injected KILL gets there first. The process table says how
                // the process really ended; the kill is the earliest instant.
                exits.entry(e.a).or_insert((e.seq, *st));
            }
        }
        match e.kind.as_str() {
            "exit" => {
                exits.entry(e.pid as i64).or_insert((e.seq, e.a));
            }
            "wait" if e.b >= 0 => {
                let n = reaped.entry(e.a).or_insert(0);
                *n += 1;
                if *n > 1 {
                    return Some((
                        "reaped-twice".into(),
                        "reaped-twice".into(),
                        format!("pid {} was reaped {} times", e.a, n),
                    ));
                }
                match exits.get(&e.a) {
                    None => {
                        return Some((
                            "wait-before-exit".into(),
                            "wait-before-exit".into(),
                            format!(
                                "wait in pid {} returned status {} for pid {} which has not exited",
                                e.pid, e.b, e.a
                            ),
                        ));
                    }
                    Some((_, st)) if *st != e.b => {
                        return Some((
                            "wait-status".into(),
                            "wait-status".into(),
                            format!(
                                "pid {} exited with {} but wait in pid {} reported {}",
                                e.a, st, e.pid, e.b
                            ),
                        ));
                    }
                    _ => {}
                }
            }
            _ => {}
        }
    }
    // zombies: only pid 2 and jobs the script never waited for may be unreaped
    let mut allowed: BTreeSet<i32> = BTreeSet::new();
    allowed.insert(2);
    for id in &exp.unwaited {
        if let Some(p) = pid_of_job(obs, *id) {
            allowed.insert(p);
        }
    }
    // (a process whose parent terminated before it has nobody to reap it)
    let exit_seq = |pid: i32| exits.get(&(pid as i64)).map(|(seq, _)| *seq);
    for p in &o.procs {
        let orphaned = match (exit_seq(p.ppid), exit_seq(p.pid)) {
            (Some(parent), Some(own)) => parent < own,
            _ => false,
        };
        if truth && p.unreaped && !allowed.contains(&p.pid) && !orphaned {
            return Some((
                "zombie".into(),
                "zombie".into(),
                format!(
                    "pid {} (child of {}) terminated ({}) and was awaited by the script but never reaped",
                    p.pid, p.ppid, p.state
                ),
            ));
        }
    }
    None
}

fn draw_config(rng: &mut Rng, k: u32) -> SimConfig {
    let strategy = if k == 0 {
        Strategy::Fifo
    } else {
        match rng.below(10) {
            0..=4 => Strategy::Random,
            5..=6 => Strategy::Pct(rng.range(1, 3)),
            7 => Strategy::RoundRobin,
            _ => Strategy::FifoDev(*rng.pick(&[50u32, 200])),
        }
    };
    let (preempt, clamp) = if k == 0 {
        (0, 0)
    } else {
        (
            *rng.pick(&[0u32, 0, 20, 100, 400]),
            *rng.pick(&[0u32, 0, 0, 100, 500]),
        )
    };
    SimConfig {
        strategy,
        preempt_permille: preempt,
        clamp_permille: clamp,
        ..Default::default()
    }
}

pub struct C13;

fn failure(
    c: &Case,
    cfg: &SimConfig,
    obs: &Observed,
    _decisions: &[Decision],
    v: (String, String, String),
) -> Failure {
    Failure {
        class: v.0,
        key: v.1,
        detail: format!("{}\n--- script ---\n{}", v.2, render_case(c)),
        case: serde_json::to_value(c).unwrap(),
        cfg: cfg.clone(),
        decisions: obs.decisions.clone(),
        history_tail: history_tail(&obs.history, 40),
    }
}

fn run_one(c: &Case, exp: &Expect, cfg: &SimConfig, decider: Decider) -> (Observed, Option<(String, String, String)>) {
    let obs = norm_fds(c, run_script(&spec_of(c), cfg, decider));
    let v = check_run(c, exp, &obs);
    (obs, v)
}

fn spec_with_fds(c: &Case) -> ScriptSpec {
    spec_of(c)
}

/// (descriptor 1 is redirected while `fds` runs: its saved copy is 10c)
/// An interactive or job-control shell keeps one more descriptor for its own use (>= 10,
/// close-on-exec; absent if opening it failed): the descriptor listings of
/// such runs are compared below 11 only.
fn norm_fds(c: &Case, mut obs: Observed) -> Observed {
    if !c.interactive && !c.job_control {
        return obs;
    }
    let fix = |text: &str| -> String {
        let mut out = String::new();
        for l in text.split_inclusive('\n') {
            if l.starts_with("fds:") {
                let nl = l.ends_with('\n');
                let kept: Vec<&str> = l
                    .trim_end_matches('\n')
                    .split(' ')
                    .filter(|t| t.trim_end_matches('c').parse::<u32>().map_or(true, |n| n < 11))
                    .collect();
                out.push_str(&kept.join(" "));
                if nl {
                    out.push('\n');
                }
            } else {
                out.push_str(l);
            }
        }
        out
    };
    obs.stdout = fix(&obs.stdout);
    if let Some(f) = obs.files.get_mut("/work/fds_final") {
        f.2 = fix(&String::from_utf8_lossy(&f.2)).into_bytes();
    }
    obs
}

const FDS_FINAL: &str = "fds: 0 1 2 10c";

fn fds_line(obs: &Observed) -> Option<String> {
    let (_, _, content) = obs.files.get("/work/fds_final")?;
    let text = String::from_utf8_lossy(content);
    text.lines().next().map(str::to_string)
}

/// The main shell's final descriptor table in the fault-free FIFO run, and the
/// number of descriptor allocations of all processes in that run.
fn emfile_baseline(c: &Case) -> (String, u32) {
    let cfg = SimConfig {
        fail_alloc_pid: None,
        ..Default::default()
    };
    let obs = norm_fds(c, run_script(&spec_with_fds(c), &cfg, Decider::record(Rng::new(1))));
    (fds_line(&obs).unwrap_or_default(), obs.alloc_count)
}

fn run_emfile(
    c: &Case,
    exp: &Expect,
    cfg: &SimConfig,
    decider: Decider,
    base_fds: &str,
) -> (Observed, Option<(String, String, String)>) {
    let obs = norm_fds(c, run_script(&spec_with_fds(c), cfg, decider));
    let mut v = check_run_opt(c, exp, &obs, false);
    if v.is_none()
        && let Some(l) = fds_line(&obs)
        && l != base_fds
    {
        v = Some((
            "fd-leak".into(),
            "fd-leak".into(),
            format!(
                "after a descriptor allocation failed (EMFILE at allocation {:?}) the shell ends with `{l}`, the fault-free run with `{base_fds}`\nstderr {:?}",
                cfg.fail_alloc_at, obs.stderr
            ),
        ));
    }
    (obs, v)
}

/// Under any fault: if the shell got as far as printing its descriptor table,
/// it is the initial one.
fn fd_leak(obs: &Observed, what: &str) -> Option<(String, String, String)> {
    match fds_line(obs) {
        Some(l) if l != FDS_FINAL => Some((
            "fd-leak".into(),
            "fd-leak".into(),
            format!("{what}: the shell ends with `{l}` instead of `{FDS_FINAL}`\nstderr {:?}", obs.stderr),
        )),
        _ => None,
    }
}

fn khist_case(h: crate::procs::KHist) -> Case {
    Case {
        nodes: Vec::new(),
        pipefail: false,
        dash_c: false,
        sigpar: false,
        trapterm: false,
        interactive: false,
        job_control: false,
        khist: Some(h),
    }
}

fn run_khist(h: &crate::procs::KHist, reach: &mut BTreeMap<&'static str, u64>) -> Option<Failure> {
    let r = crate::sim::catch(|| crate::procs::run(h, reach));
    let v = match r {
        Ok(v) => v,
        Err(p) => Some(("panic".to_string(), p)),
    };
    v.map(|(class, detail)| Failure {
        key: format!("kernel:{class}"),
        class,
        detail: format!("{detail}\n--- history ---\n{}", serde_json::to_string(&h.ops).unwrap_or_default()),
        case: serde_json::to_value(khist_case(h.clone())).unwrap(),
        cfg: SimConfig::default(),
        decisions: Vec::new(),
        history_tail: Vec::new(),
    })
}

fn run_crash(c: &Case, cfg: &SimConfig, decider: Decider) -> Observed {
    norm_fds(c, crate::shellrun::run_script_with(&spec_of(c), cfg, decider, |_| {}, crate::shellrun::crash_env(cfg)))
}

impl Prop for C13 {
    fn id(&self) -> &'static str {
        "C13"
    }
    fn level(&self) -> &'static str {
        "exploration"
    }
    fn rule(&self) -> String {
        "Seeded generator of race-free-by-construction shell programs (pipelines of 2-4 stages with read/relay/count stages, ( ), $( ) (as an assignment, twice in one word of a command, with an asynchronous grandchild that keeps the pipe open after the substitution's shell has left, and with output larger than a pipe holds); a fifth of the programs run in an interactive shell (`-i -c`), a sixth under job control (`-m`; every asynchronous job starts with a probe that it is a process group of its own), the `wait` built-in interrupted by a trapped signal while other children change state at the same simulated time, `{ ...; exit N; } >file &` jobs with $! capture, wait PID / wait / wait UNKNOWN, if/for/functions, pipefail on/off, nesting <= 3); expectations from a reference interpreter of the generator AST. Each program runs whole on the simulated OS under the FIFO baseline plus seeded schedules (random, PCT, round-robin, FIFO-with-deviations) with preemption at kernel-call boundaries and short reads/writes. A run counts as distinct non-trivial when it had >= 2 processes, >= 1 scheduling point with >= 2 ready tasks (or >= 1 fired fault) and its (program hash, schedule hash, fault count) triple was not seen before (hash set). Engine (k): 20/60 seeded histories per case on the simulated kernel's process table (fork, exit, setpgid, kill to a process or a process group incl. STOP/CONT/KILL/0, sigmask, sigaction, wait) against a POSIX life-cycle model. Added configurations: programs in which the main shell traps USR1 and foreground children send it, or traps TERM/HUP and kills young jobs with them; children waiting for the parent's jobs (127); orphans; every program ends by writing the shell's descriptor table to a file (must be the initial one). Fault runs with a relaxed oracle (termination, true wait statuses, nothing runs after its death, no descriptor left behind): fork fails with EAGAIN at a seeded position; a descriptor allocation of any process fails with EMFILE at a seeded position; children are killed with SIGKILL from outside at seeded steps. Blocks wrapped in `eval '...'` / `command eval '...'`: children started and awaited inside a built-in.".into()
    }
    fn assumptions(&self) -> Vec<String> {
        vec![
            "decided relative to the repository's simulated kernel (VirtualSystem); C19 bounds how far that model can be trusted".into(),
            "sampling of schedules, not enumeration: a clean batch is evidence, not proof".into(),
            "preemption exists at asynchronous kernel calls (read, write, open, kill, sigmask) and two shell sites (after fork, between wait()==None and the SIGCHLD sleep), not between arbitrary instructions".into(),
            "external utilities cannot run in the simulated OS; workloads use real built-ins plus probe built-ins".into(),
        ]
    }
    fn components(&self) -> Value {
        json!({
            "real": ["yash-syntax", "yash-semantics", "yash-builtin", "yash-env (Env, Concurrent, run_virtual, JobList, TrapSet, VirtualSystem)", "yash-cli startup (args::parse, configure_environment, prepare_input)"],
            "stub": ["outer executor (seeded scheduler on the Executor seam)", "probe built-ins (echo, rc, mypid, relay, cat, ...)", "shell glue equivalent to yash_cli::run_as_shell_process"]
        })
    }
    fn cases(&self, tier: Tier) -> u64 {
        match tier {
            Tier::Quick => 8000,
            Tier::Thorough => 60_000,
        }
    }

    fn run_case(&self, seed: u64, index: u64, tier: Tier, stats: &mut Stats) -> Option<Failure> {
        // engine (k): process-table histories of the simulated kernel
        {
            let mut kr = Rng::stream(seed, 1377, index);
            let n = match tier {
                Tier::Quick => 20,
                Tier::Thorough => 60,
            };
            let mut reach = BTreeMap::new();
            for _ in 0..n {
                let hist = crate::procs::generate(&mut kr, tier == Tier::Thorough);
                stats.count("process_table_histories", 1);
                if let Some(f) = run_khist(&hist, &mut reach) {
                    stats.count("violating_runs", 1);
                    return Some(f);
                }
            }
            for (k, v) in reach {
                stats.count(k, v);
            }
        }
        let mut rng = Rng::stream(seed, 13, index);
        let case = generate(&mut rng, tier);
        let exp = expect(&case);
        let script = render_case(&case);
        let case_hash = hash_str(&script);
        let schedules = match tier {
            Tier::Quick => 12,
            Tier::Thorough => 32,
        };
        let mut first_failure: Option<Failure> = None;
        for k in 0..schedules {
            let cfg = draw_config(&mut rng, k);
            let decider = Decider::record(Rng::stream(seed, 1300 + k as u64, index));
            let (obs, v) = run_one(&case, &exp, &cfg, decider);
            {
                let o = &obs;
                stats.note_run(case_hash, &o.outcome, o.faults_fired);
                stats.add_counters(&o.counters);
                let d = crate::shellrun::obs_digest(o);
                stats.digest(index, d);
                if k == 0 && stats.samples.len() < 2 && o.outcome.tasks >= 3 {
                    stats.samples.push(json!({
                        "script": script,
                        "expected_stdout": exp.stdout,
                        "expected_status": exp.status,
                        "schedules_run": schedules,
                        "fifo_baseline": {"steps": o.outcome.steps, "processes": o.outcome.tasks},
                        "history_head": o.history.iter().take(40).map(|e| format!("#{} pid{} {} {} {} {}", e.seq, e.pid, e.kind, e.a, e.b, e.text)).collect::<Vec<_>>(),
                    }));
                }
            }
            if let Some(v) = v {
                stats.count("violating_runs", 1);
                if first_failure.is_none() {
                    first_failure = Some(failure(&case, &cfg, &obs, &[], v));
                }
                break;
            }
        }
        // (a program whose progress depends on a helper job continuing a
        // stopped command is not run with faults that can take the helper away)
        let fault_runs = !case.nodes.iter().any(|n| matches!(n, N::StopPipe { .. }));
        if first_failure.is_none() && fault_runs {
            // fork failure (EAGAIN) at up to three seeded positions: the shell
            // must still terminate, never wait wrongly, never act after death
            let forks = {
                let cfg = draw_config(&mut rng, 0);
                let (obs, _) = run_one(&case, &exp, &cfg, Decider::record(Rng::stream(seed, 1390, index)));
                obs.history.iter().filter(|e| e.kind == "fork").count() as u32
            };
            for j in 0..forks.min(3) {
                let k = 1 + rng.below(forks);
                let mut cfg = draw_config(&mut rng, 1 + j);
                cfg.fail_spawn_at = Some(k);
                let obs = norm_fds(&case, run_script(&spec_of(&case), &cfg, Decider::record(Rng::stream(seed, 1391 + j as u64, index))));
                stats.note_run(case_hash ^ 0xEA6A, &obs.outcome, obs.faults_fired);
                stats.add_counters(&obs.counters);
                stats.digest(index, crate::shellrun::obs_digest(&obs));
                if let Some(v) = check_run_opt(&case, &exp, &obs, false).or_else(|| fd_leak(&obs, "after a fork failed with EAGAIN")) {
                    stats.count("violating_runs", 1);
                    let mut f = failure(&case, &cfg, &obs, &[], v);
                    f.key = format!("eagain:{}", f.key);
                    first_failure = Some(f);
                    break;
                }
            }
        }
        if first_failure.is_none() && fault_runs {
            // crash injection: children are killed (SIGKILL from outside) at
            // seeded instants. Output is no longer predictable; the shell must
            // still terminate, report true statuses and never act after death.
            let runs = match tier {
                Tier::Quick => 2,
                Tier::Thorough => 4,
            };
            for j in 0..runs {
                let mut cfg = draw_config(&mut rng, 1 + j);
                cfg.crash_permille = *rng.pick(&[20u32, 60, 150]);
                cfg.crash_max = rng.range(1, 3);
                let obs = run_crash(&case, &cfg, Decider::record(Rng::stream(seed, 1395 + j as u64, index)));
                stats.note_run(case_hash ^ 0xC4A5, &obs.outcome, obs.faults_fired);
                stats.add_counters(&obs.counters);
                stats.digest(index, crate::shellrun::obs_digest(&obs));
                if let Some(v) = check_run_opt(&case, &exp, &obs, false).or_else(|| fd_leak(&obs, "after children were killed from outside")) {
                    stats.count("violating_runs", 1);
                    let mut f = failure(&case, &cfg, &obs, &[], v);
                    f.key = format!("crash:{}", f.key);
                    first_failure = Some(f);
                    break;
                }
            }
        }
        if first_failure.is_none() && fault_runs {
            // descriptor exhaustion (EMFILE) at up to three seeded allocation
            // positions of any process: the shell still terminates, waits
            // truthfully, and its own descriptor table at the end is the one
            // of the fault-free run (`fds` appended to the program)
            let (base_fds, allocs) = emfile_baseline(&case);
            for j in 0..allocs.min(3) {
                let mut cfg = draw_config(&mut rng, 1 + j);
                cfg.fail_alloc_at = Some(1 + rng.below(allocs));
                cfg.fail_alloc_pid = None;
                let (obs, v) = run_emfile(&case, &exp, &cfg, Decider::record(Rng::stream(seed, 1380 + j as u64, index)), &base_fds);
                stats.note_run(case_hash ^ 0xE3F1, &obs.outcome, obs.faults_fired);
                stats.add_counters(&obs.counters);
                stats.digest(index, crate::shellrun::obs_digest(&obs));
                if let Some(v) = v {
                    stats.count("violating_runs", 1);
                    let mut f = failure(&case, &cfg, &obs, &[], v);
                    f.key = format!("emfile:{}", f.key);
                    first_failure = Some(f);
                    break;
                }
            }
        }
        first_failure
    }

    fn rerun(&self, case: &Value, cfg: &SimConfig, decisions: &[Decision]) -> Option<Failure> {
        let c: Case = serde_json::from_value(case.clone()).ok()?;
        if let Some(h) = &c.khist {
            return run_khist(h, &mut BTreeMap::new());
        }
        let exp = expect(&c);
        if cfg.fail_alloc_at.is_some() {
            let (base_fds, _) = emfile_baseline(&c);
            let (obs, v) = run_emfile(&c, &exp, cfg, Decider::replay(decisions), &base_fds);
            return v.map(|v| {
                let mut f = failure(&c, cfg, &obs, decisions, v);
                f.key = format!("emfile:{}", f.key);
                f
            });
        }
        if cfg.crash_permille > 0 {
            let obs = run_crash(&c, cfg, Decider::replay(decisions));
            return check_run_opt(&c, &exp, &obs, false).or_else(|| fd_leak(&obs, "after children were killed from outside")).map(|v| {
                let mut f = failure(&c, cfg, &obs, decisions, v);
                f.key = format!("crash:{}", f.key);
                f
            });
        }
        if cfg.fail_spawn_at.is_some() {
            let obs = norm_fds(&c, run_script(&spec_of(&c), cfg, Decider::replay(decisions)));
            return check_run_opt(&c, &exp, &obs, false).or_else(|| fd_leak(&obs, "after a fork failed with EAGAIN")).map(|v| {
                let mut f = failure(&c, cfg, &obs, decisions, v);
                f.key = format!("eagain:{}", f.key);
                f
            });
        }
        let (obs, v) = run_one(&c, &exp, cfg, Decider::replay(decisions));
        v.map(|v| failure(&c, cfg, &obs, decisions, v))
    }

    fn shrink(&self, case: &Value) -> Vec<Value> {
        let Ok(c) = serde_json::from_value::<Case>(case.clone()) else {
            return Vec::new();
        };
        if let Some(h) = &c.khist {
            return crate::procs::shrink(h)
                .into_iter()
                .map(|h| serde_json::to_value(khist_case(h)).unwrap())
                .collect();
        }
        let mut out = Vec::new();
        for mut v in variants(&c.nodes) {
            repair(&mut v, &mut BTreeSet::new());
            close_jobs(&mut v);
            if v.is_empty() {
                continue;
            }
            out.push(
                serde_json::to_value(Case {
                    nodes: v,
                    pipefail: c.pipefail,
                    dash_c: c.dash_c,
                    sigpar: c.sigpar,
                    trapterm: c.trapterm,
                    interactive: c.interactive,
                    job_control: c.job_control,
                    khist: None,
                })
                .unwrap(),
            );
        }
        if c.pipefail {
            out.push(
                serde_json::to_value(Case {
                    nodes: c.nodes.clone(),
                    pipefail: false,
                    dash_c: c.dash_c,
                    sigpar: c.sigpar,
                    trapterm: c.trapterm,
                    interactive: c.interactive,
                    job_control: c.job_control,
                    khist: None,
                })
                .unwrap(),
            );
        }
        out
    }
}
