//! Property-independent driver: worker fan-out, statistics, minimisation,
//! replay files, known findings, evidence files.

use crate::rng::{Decision, fnv1a, fnv_combine, tag};
use crate::sim::{Ev, SimConfig};
use serde::{Deserialize, Serialize};
use serde_json::{Value, json};
use std::collections::{BTreeMap, BTreeSet, HashSet};
use std::sync::Mutex;
use std::sync::atomic::{AtomicBool, AtomicU64, Ordering};
use std::time::Instant;

#[derive(Clone, Copy, Debug, PartialEq, Eq)]
pub enum Tier {
    Quick,
    Thorough,
}

impl Tier {
    pub fn name(self) -> &'static str {
        match self {
            Tier::Quick => "quick",
            Tier::Thorough => "thorough",
        }
    }
}

/// A violation found by a check.
#[derive(Clone, Debug, Serialize, Deserialize)]
pub struct Failure {
    /// Violation class, e.g. "deadlock", "truth", "zombie".
    pub class: String,
    /// Stable key used to match known findings: class + specific site/shape.
    pub key: String,
    pub detail: String,
    /// The generated case (program, expectations), property specific.
    pub case: Value,
    pub cfg: SimConfig,
    pub decisions: Vec<Decision>,
    #[serde(default)]
    pub history_tail: Vec<Ev>,
}

#[derive(Clone, Debug, Serialize, Deserialize)]
pub struct ReplayFile {
    pub property: String,
    pub seed: u64,
    pub index: u64,
    pub minimised: bool,
    pub failure: Failure,
}

#[derive(Default)]
pub struct Stats {
    pub cases: u64,
    pub evaluations: u64,
    /// hashes of distinct non-trivial (case, schedule) pairs
    pub distinct: HashSet<u64>,
    /// hashes of distinct interleavings (schedule hashes of non-trivial runs)
    pub interleavings: HashSet<u64>,
    pub counters: BTreeMap<String, u64>,
    pub steps: u64,
    pub sim_ms: u64,
    pub choice_points: u64,
    pub samples: Vec<Value>,
    /// digest of everything observed, per case index (determinism self-test)
    pub digests: BTreeMap<u64, u64>,
}

impl Stats {
    pub fn count(&mut self, key: &str, n: u64) {
        if n > 0 {
            *self.counters.entry(key.to_string()).or_insert(0) += n;
        }
    }

    pub fn add_counters(&mut self, c: &BTreeMap<&'static str, u64>) {
        for (k, v) in c {
            self.count(k, *v);
        }
    }

    pub fn note_run(&mut self, case_hash: u64, out: &crate::sim::RunOutcome, faults_fired: u64) {
        self.evaluations += 1;
        self.steps += out.steps;
        self.sim_ms += out.sim_time_ms;
        self.choice_points += out.choice_points as u64;
        let nontrivial = (out.tasks >= 2 || faults_fired > 0) && out.choice_points >= 1
            || faults_fired > 0;
        if nontrivial {
            self.distinct
                .insert(fnv_combine(case_hash, out.schedule_hash ^ faults_fired.rotate_left(17)));
            self.interleavings.insert(out.schedule_hash);
        }
    }

    pub fn digest(&mut self, index: u64, x: u64) {
        let d = self.digests.entry(index).or_insert(0xcbf2_9ce4_8422_2325);
        *d = fnv_combine(*d, x);
    }

    fn merge(&mut self, other: Stats) {
        self.cases += other.cases;
        self.evaluations += other.evaluations;
        self.distinct.extend(other.distinct);
        self.interleavings.extend(other.interleavings);
        for (k, v) in other.counters {
            *self.counters.entry(k).or_insert(0) += v;
        }
        self.steps += other.steps;
        self.sim_ms += other.sim_ms;
        self.choice_points += other.choice_points;
        self.samples.extend(other.samples);
        self.digests.extend(other.digests);
    }

    pub fn total_digest(&self) -> u64 {
        let mut d = 0xcbf2_9ce4_8422_2325;
        for (i, x) in &self.digests {
            d = fnv_combine(fnv_combine(d, *i), *x);
        }
        d
    }
}

pub trait Prop: Sync + Send {
    fn id(&self) -> &'static str;
    fn level(&self) -> &'static str;
    fn rule(&self) -> String;
    fn assumptions(&self) -> Vec<String>;
    fn components(&self) -> Value;
    fn cases(&self, tier: Tier) -> u64;
    /// Generates case `index`, executes it under all its schedules / faults,
    /// checks the oracles. Returns the first violation.
    fn run_case(&self, seed: u64, index: u64, tier: Tier, stats: &mut Stats) -> Option<Failure>;
    /// Re-executes one recorded run (case + configuration + decision log in
    /// replay mode). Returns the violation if there is one.
    fn rerun(&self, case: &Value, cfg: &SimConfig, decisions: &[Decision]) -> Option<Failure>;
    /// Structurally smaller variants of a case.
    fn shrink(&self, _case: &Value) -> Vec<Value> {
        Vec::new()
    }
    /// Does a known-finding key cover this failure key? (default: equality)
    fn matches_known(&self, failure_key: &str, finding_key: &str) -> bool {
        failure_key == finding_key
    }
    /// Run the cases in a child process, so that a crash of the system under
    /// test (memory unsafety) is reported as a violation instead of killing the
    /// check.
    fn isolate(&self) -> bool {
        false
    }
}

pub struct KnownFindings {
    /// (property, key substring, description)
    pub findings: Vec<(String, String, String)>,
}

impl KnownFindings {
    pub fn load(path: &str) -> KnownFindings {
        let mut findings = Vec::new();
        if let Ok(text) = std::fs::read_to_string(path) {
            for line in text.lines() {
                let line = line.trim();
                // finding: property=<id> key=<key> <what fails>
                if let Some(rest) = line.strip_prefix("finding:") {
                    let mut prop = String::new();
                    let mut key = String::new();
                    let mut desc = Vec::new();
                    for w in rest.split_whitespace() {
                        if let Some(p) = w.strip_prefix("property=") {
                            prop = p.to_string();
                        } else if let Some(k) = w.strip_prefix("key=") {
                            key = k.to_string();
                        } else {
                            desc.push(w);
                        }
                    }
                    if !prop.is_empty() && !key.is_empty() {
                        findings.push((prop, key, desc.join(" ")));
                    }
                }
                // "fixed:" lines suppress nothing.
            }
        }
        KnownFindings { findings }
    }

    pub fn matches(&self, prop: &dyn Prop, key: &str) -> Option<&(String, String, String)> {
        self.findings
            .iter()
            .find(|(p, k, _)| p == prop.id() && prop.matches_known(key, k))
    }
}

/// Minimises a failure: structural shrinking of the case, then delta debugging
/// on the decision log (zeroing scheduling / fault decisions), while the same
/// violation class persists.
pub fn minimise(prop: &dyn Prop, mut f: Failure, budget: usize) -> Failure {
    let mut spent = 0usize;
    // wall-clock bound: violating runs of a broken system can be slow
    let t0 = Instant::now();
    let budget = if false { 0 } else { budget };
    let over = |spent: usize| spent >= budget || t0.elapsed().as_secs() > 45;
    let class = f.class.clone();
    // 1. structural shrinking
    'outer: loop {
        if over(spent) {
            break;
        }
        for cand in prop.shrink(&f.case) {
            spent += 1;
            if over(spent) {
                break 'outer;
            }
            if let Some(f2) = prop.rerun(&cand, &f.cfg, &f.decisions)
                && f2.class == class
            {
                f = f2;
                continue 'outer;
            }
        }
        break;
    }
    // 2. decision log: truncate, then zero chunks
    let mut chunk = f.decisions.len().max(1);
    while chunk >= 1 && !over(spent) {
        let mut i = 0;
        let mut progress = false;
        while i < f.decisions.len() && !over(spent) {
            let end = (i + chunk).min(f.decisions.len());
            if f.decisions[i..end]
                .iter()
                .all(|d| d.v == 0 || d.tag == tag::MISC)
            {
                i = end;
                continue;
            }
            let mut cand = f.decisions.clone();
            for d in &mut cand[i..end] {
                if d.tag != tag::MISC {
                    d.v = 0;
                }
            }
            spent += 1;
            if let Some(f2) = prop.rerun(&f.case, &f.cfg, &cand)
                && f2.class == class
            {
                // keep the zeroed log itself (not the re-recorded one) so that
                // positions stay comparable, but take the new detail
                let mut f2 = f2;
                f2.decisions = cand;
                f = f2;
                progress = true;
            }
            i = end;
        }
        if chunk == 1 {
            if !progress {
                break;
            }
        } else {
            chunk /= 2;
        }
        if chunk == 0 {
            break;
        }
    }
    // normalise: re-run once more from the final log and keep the decisions
    // actually consumed
    if let Some(f2) = prop.rerun(&f.case, &f.cfg, &f.decisions)
        && f2.class == class
    {
        f = f2;
    }
    f
}

pub struct CheckOptions {
    pub tier: Tier,
    pub seed: u64,
    pub workers: usize,
    pub cases: Option<u64>,
    pub evidence_dir: String,
    pub replay_dir: String,
    pub known_findings: String,
    pub write_evidence: bool,
    pub max_seconds: Option<u64>,
    /// first case index (for locating a crash)
    pub from: u64,
}

pub struct CheckResult {
    pub exit_code: i32,
    pub digest: u64,
}

pub fn run_check(prop: &dyn Prop, opt: &CheckOptions) -> CheckResult {
    let t0 = Instant::now();
    let n_cases = opt.cases.unwrap_or_else(|| prop.cases(opt.tier));
    let next = AtomicU64::new(opt.from);
    let stop = AtomicBool::new(false);
    let failures: Mutex<Vec<(u64, Failure)>> = Mutex::new(Vec::new());
    let merged: Mutex<Stats> = Mutex::new(Stats::default());
    let known = KnownFindings::load(&opt.known_findings);
    let early_known: Mutex<BTreeSet<String>> = Mutex::new(BTreeSet::new());
    let workers = opt.workers.max(1);
    // Watchdog: a case that runs longer than the limit is a hang of the system
    // under test (or of the harness); it cannot be interrupted, so the process
    // reports it and exits.
    let running: Vec<Mutex<Option<(u64, Instant)>>> = (0..workers).map(|_| Mutex::new(None)).collect();
    let finished = AtomicBool::new(false);
    let next_slot = AtomicU64::new(0);
    let case_limit = std::time::Duration::from_secs(
        std::env::var("VERIF_CASE_TIMEOUT").ok().and_then(|s| s.parse().ok()).unwrap_or(120),
    );
    let deadline = opt.max_seconds.map(|s| t0 + std::time::Duration::from_secs(s));
    std::thread::scope(|scope| {
        scope.spawn(|| {
            while !finished.load(Ordering::Relaxed) {
                std::thread::sleep(std::time::Duration::from_millis(200));
                for slot in &running {
                    let cur = *slot.lock().unwrap();
                    if let Some((index, start)) = cur
                        && start.elapsed() > case_limit
                    {
                        let path = format!("{}/{}-{}-{}-hang.json", opt.replay_dir, prop.id(), opt.seed, index);
                        std::fs::create_dir_all(&opt.replay_dir).ok();
                        let rf = json!({"property": prop.id(), "seed": opt.seed, "index": index,
                            "tier": opt.tier.name(), "hang": true,
                            "note": "case did not finish within the per-case wall-clock limit; replay re-runs case <index> of seed <seed>"});
                        std::fs::write(&path, serde_json::to_string_pretty(&rf).unwrap()).ok();
                        println!("violation class=hang key=hang detail=case {index} did not finish within {:?}", case_limit);
                        println!("VIOLATION property={} replay={}", prop.id(), path);
                        std::process::exit(1);
                    }
                }
            }
        });
        let mut handles = Vec::new();
        for _ in 0..workers {
            handles.push(scope.spawn(|| {
                let my_slot = next_slot.fetch_add(1, Ordering::Relaxed) as usize;
                let mut stats = Stats::default();
                loop {
                    if stop.load(Ordering::Relaxed) {
                        break;
                    }
                    if let Some(d) = deadline
                        && Instant::now() > d
                    {
                        break;
                    }
                    let i = next.fetch_add(1, Ordering::Relaxed);
                    if i >= n_cases {
                        break;
                    }
                    stats.cases += 1;
                    *running[my_slot].lock().unwrap() = Some((i, Instant::now()));
                    let result = prop.run_case(opt.seed, i, opt.tier, &mut stats);
                    *running[my_slot].lock().unwrap() = None;
                    if let Some(f) = result {
                        // a failure that is a listed finding does not stop the run
                        if let Some((_, key, desc)) = known.matches(prop, &f.key) {
                            early_known.lock().unwrap().insert(format!("{key} {desc}"));
                            continue;
                        }
                        let mut fs = failures.lock().unwrap();
                        if !fs.iter().any(|(_, g)| g.key == f.key) || fs.len() < 4 {
                            fs.push((i, f));
                        }
                        // keep going a little so that distinct violations are
                        // seen, but stop after a handful
                        if fs.len() >= 8 {
                            stop.store(true, Ordering::Relaxed);
                        }
                    }
                }
                merged.lock().unwrap().merge(stats);
            }));
        }
        for h in handles {
            h.join().ok();
        }
        finished.store(true, Ordering::Relaxed);
    });
    let mut stats = merged.into_inner().unwrap();
    let mut failures = failures.into_inner().unwrap();
    failures.sort_by_key(|(i, _)| *i);

    let mut violations = 0;
    let mut known_hits: BTreeSet<String> = early_known.into_inner().unwrap();
    let mut reported_keys: BTreeSet<String> = BTreeSet::new();
    let mut harness_error = false;
    std::fs::create_dir_all(&opt.replay_dir).ok();
    for (index, f) in failures {
        // cheap pre-filter on the raw key, then minimise and match again: the
        // key of a minimised failure names the specific operation
        if let Some((_, key, desc)) = known.matches(prop, &f.key) {
            known_hits.insert(format!("{key} {desc}"));
            continue;
        }
        if reported_keys.contains(&f.key) {
            continue;
        }
        let minimised = minimise(prop, f.clone(), 400);
        if let Some((_, key, desc)) = known.matches(prop, &minimised.key) {
            known_hits.insert(format!("{key} {desc}"));
            continue;
        }
        if !reported_keys.insert(minimised.key.clone()) {
            continue;
        }
        reported_keys.insert(f.key.clone());
        let path = format!(
            "{}/{}-{}-{}.json",
            opt.replay_dir,
            prop.id(),
            opt.seed,
            index
        );
        let rf = ReplayFile {
            property: prop.id().to_string(),
            seed: opt.seed,
            index,
            minimised: true,
            failure: minimised,
        };
        std::fs::write(&path, serde_json::to_string_pretty(&rf).unwrap()).unwrap();
        // The replay must reproduce in a fresh process.
        let exe = std::env::current_exe().unwrap();
        let status = std::process::Command::new(exe)
            .args(["replay", &path, "--quiet"])
            .status();
        match status {
            Ok(s) if s.code() == Some(1) => {
                println!(
                    "violation class={} key={} detail={}",
                    rf.failure.class,
                    rf.failure.key,
                    rf.failure.detail.replace('\n', " | ")
                );
                println!("VIOLATION property={} replay={}", prop.id(), path);
                violations += 1;
            }
            other => {
                // try the unminimised failure
                let rf0 = ReplayFile {
                    property: prop.id().to_string(),
                    seed: opt.seed,
                    index,
                    minimised: false,
                    failure: f,
                };
                std::fs::write(&path, serde_json::to_string_pretty(&rf0).unwrap()).unwrap();
                let exe = std::env::current_exe().unwrap();
                let status = std::process::Command::new(exe)
                    .args(["replay", &path, "--quiet"])
                    .status();
                if matches!(status, Ok(s) if s.code() == Some(1)) {
                    println!(
                        "violation class={} key={} detail={}",
                        rf0.failure.class,
                        rf0.failure.key,
                        rf0.failure.detail.replace('\n', " | ")
                    );
                    println!("VIOLATION property={} replay={}", prop.id(), path);
                    violations += 1;
                } else {
                    eprintln!(
                        "HARNESS ERROR: replay of {path} did not reproduce ({other:?} / {status:?})"
                    );
                    harness_error = true;
                }
            }
        }
    }
    for k in &known_hits {
        println!("KNOWN-FINDING: property={} {}", prop.id(), k);
    }

    let wall = t0.elapsed().as_secs_f64();
    let digest = stats.total_digest();
    if opt.write_evidence {
        stats.samples.truncate(4);
        let per_hour = if wall > 0.0 {
            (stats.evaluations as f64 / wall * 3600.0) as u64
        } else {
            0
        };
        let evidence = json!({
            "property_id": prop.id(),
            "tier": opt.tier.name(),
            "seed": opt.seed,
            "level": prop.level(),
            "coverage": {
                "evaluations": stats.evaluations,
                "distinct_nontrivial": stats.distinct.len(),
                "rule": prop.rule(),
                "samples": stats.samples,
                "cases_generated": stats.cases,
                "simulated_runs_per_hour": per_hour,
                "scheduler_steps": stats.steps,
                "choice_points_with_2plus_ready": stats.choice_points,
                "simulated_time_ms": stats.sim_ms,
                "distinct_interleavings": stats.interleavings.len(),
                "fault_and_reach_counters": stats.counters,
                "components": prop.components(),
                "workers": workers,
                "digest": format!("{digest:016x}"),
                "known_findings_hit": known_hits.iter().collect::<Vec<_>>(),
            },
            "assumptions": prop.assumptions(),
            "wall_s": wall,
            "violations": violations,
        });
        std::fs::create_dir_all(&opt.evidence_dir).ok();
        let path = format!("{}/{}.json", opt.evidence_dir, prop.id());
        std::fs::write(&path, serde_json::to_string_pretty(&evidence).unwrap()).unwrap();
    }
    println!(
        "{} {}: cases={} runs={} distinct={} interleavings={} steps={} wall={:.1}s digest={:016x} violations={}",
        prop.id(),
        opt.tier.name(),
        stats.cases,
        stats.evaluations,
        stats.distinct.len(),
        stats.interleavings.len(),
        stats.steps,
        wall,
        digest,
        violations
    );
    let exit_code = if harness_error {
        2
    } else if violations > 0 {
        1
    } else {
        0
    };
    CheckResult { exit_code, digest }
}

pub fn replay_file(prop: &dyn Prop, rf: &ReplayFile, quiet: bool) -> i32 {
    let f = &rf.failure;
    match prop.rerun(&f.case, &f.cfg, &f.decisions) {
        Some(f2) if f2.class == f.class => {
            if !quiet {
                println!(
                    "reproduced: class={} key={}\n{}",
                    f2.class, f2.key, f2.detail
                );
                for e in &f2.history_tail {
                    println!(
                        "  #{:<5} pid={:<3} {:<10} a={} b={} {}",
                        e.seq, e.pid, e.kind, e.a, e.b, e.text
                    );
                }
                println!("VIOLATION property={} replay=<this file>", rf.property);
            }
            1
        }
        Some(f2) => {
            if !quiet {
                println!(
                    "different violation: recorded class={} now class={} ({})",
                    f.class, f2.class, f2.detail
                );
            }
            3
        }
        None => {
            if !quiet {
                println!("not reproduced: the recorded run now satisfies the property");
            }
            0
        }
    }
}

pub fn hash_str(s: &str) -> u64 {
    fnv1a(s.as_bytes())
}
