//! Engine (s) of C19: the same seeded sequence of file-system and descriptor
//! calls is issued through the `yash_env::system` traits to the simulated
//! kernel (`VirtualSystem`) and, in a child process in a scratch directory, to
//! the real one (`RealSystem`); every result (value or errno, bytes read,
//! offsets, file type / size / permission bits, directory listings, flags)
//! must be the same. This is the layer under the whole-shell comparison: a
//! call the shell makes rarely is made here thousands of times.

use crate::rng::Rng;
use enumset::EnumSet;
use serde::{Deserialize, Serialize};
use std::collections::BTreeMap;
use std::ffi::CString;
use std::future::Future;
use std::io::SeekFrom;
use std::task::{Context, Poll, Waker};
use yash_env::io::Fd;
use yash_env::system::{
    Chdir, Close, Dir as _, Dup, Errno, Fcntl, FdFlag, Fstat, GetCwd, Mode, OfdAccess, Open, OpenFlag, Read, Seek, Stat as _, Umask, Write,
};

pub const PATHS: [&str; 23] = [
    "f1", "f2", "e1", "d", "d/a.txt", "d/sub", "d/sub/deep.txt", "d/new", "nodir/f", "e1/x", ".", "..", "d/..", "d/./sub/../a.txt", "", "empty", "e1/.", "e1/",
    "d//a.txt", "./f1", "d/sub/.", "x.sh", "d/x2",
];

#[derive(Clone, Debug, Serialize, Deserialize, PartialEq)]
pub enum SOp {
    /// path index, access 0 ro 1 wo 2 rw, flag bits (1 create 2 excl 4 trunc 8
    /// append 16 directory 32 cloexec), mode index
    Open(u8, u8, u8, u8),
    Close(u8),
    Read(u8, u16),
    Write(u8, u16),
    /// slot, whence 0 set 1 cur 2 end, offset
    Lseek(u8, u8, i16),
    /// slot, minimum descriptor, close-on-exec
    Dup(u8, u8, bool),
    /// from slot onto the descriptor of another slot
    Dup2(u8, u8),
    Fstat(u8),
    Fstatat(u8),
    GetFd(u8),
    SetFd(u8, bool),
    Nonblock(u8, bool),
    Access(u8),
    Umask(u8),
    Chdir(u8),
    Getcwd,
    ListDir(u8),
    IsDir(u8),
    IsExec(u8),
    Tmpfile,
    /// a pipe, both ends switched to non-blocking mode at once (two slots)
    Pipe,
    /// lower the soft limit on open descriptors to N
    Limit(u8),
    /// a child exits with this status and is left a zombie: kill with signal
    /// 0 and with SIGTERM, wait, kill again (performed by `zombie_*`, appended
    /// to the results of the history)
    Zombie(u8),
    /// signals a process sends to itself while it blocks and unblocks them, all
    /// with a handler installed: steps (0 block / 1 unblock / 2 raise / 4 ignore / 6 default (only while
    /// blocked) / 5 catch again / 3 note
    /// which handlers have run since the last note, signal index into TSTP TTIN
    /// CONT USR1 TERM); ends with "unblock all, note". Decides what stays
    /// pending: a SIGCONT discards pending stop signals and a stop signal a
    /// pending SIGCONT, whether or not the process is stopped (performed by
    /// `sigseq_*`)
    SigSeq(Vec<(u8, u8)>),
    /// signals sent to a child that sleeps with default dispositions (USR1
    /// ignored), each followed by wait() until nothing more is reported: steps
    /// index into STOP TSTP CONT TERM KILL USR1 HUP (TSTP is not generated: its
    /// effect on the real side depends on whether the process group is
    /// orphaned). What `kill` returns and
    /// which state changes `wait` reports (stopped by which signal, continued,
    /// killed by which signal; ESRCH / ECHILD once the child is gone)
    /// (performed by `childseq_*`; the real side waits, with a time limit, for
    /// the state POSIX prescribes before it asks)
    ChildSeq(Vec<u8>),
    /// a large write (pipe capacity questions are not compared: only used on
    /// regular files)
    BigWrite(u8),
}

#[derive(Clone, Debug, Serialize, Deserialize, PartialEq)]
pub struct SHist {
    pub ops: Vec<SOp>,
}

const MODES: [u32; 5] = [0o644, 0o600, 0o666, 0o777, 0o400];
const UMASKS: [u32; 4] = [0o022, 0o077, 0o027, 0o000];

pub fn generate(rng: &mut Rng, long: bool) -> SHist {
    let n = rng.range(3, if long { 40 } else { 18 });
    let mut ops = Vec::new();
    let slot = |rng: &mut Rng| rng.below(5) as u8;
    let path = |rng: &mut Rng| rng.below(PATHS.len() as u32) as u8;
    for _ in 0..n {
        ops.push(match rng.below(30) {
            0..=7 => {
                let p = path(rng);
                // the shapes of open() the shell itself uses: `<`, `>`/`>|`,
                // `>` under noclobber (exclusive create, then plain write-only),
                // `>>`, `<>`, a script file, a directory for reading
                let (access, mut flags) = *rng.pick(&[
                    (0u8, 0u8),
                    (0, 0),
                    (1, 1 | 4),
                    (1, 1 | 4),
                    (1, 1 | 2),
                    (1, 0),
                    (1, 1 | 8),
                    (2, 1),
                    (0, 32),
                    (0, 16),
                ]);
                // (creating below a missing directory: a listed modelling limit)
                if PATHS[p as usize].starts_with("nodir") {
                    flags &= !1;
                }
                SOp::Open(p, access, flags, 2)
            }
            8..=9 => SOp::Close(slot(rng)),
            // (the shell never issues zero-length transfers)
            10..=12 => SOp::Read(slot(rng), *rng.pick(&[1u16, 3, 8, 100])),
            13..=15 => SOp::Write(slot(rng), *rng.pick(&[1u16, 4, 9, 50])),
            16..=17 => SOp::Lseek(slot(rng), rng.below(3) as u8, *rng.pick(&[0i16, 0, 1, 5, 30, -1, -3, -100])),
            18 => SOp::Dup(slot(rng), *rng.pick(&[0u8, 3, 10, 30]), rng.bool()),
            19 => SOp::Dup2(slot(rng), slot(rng)),
            20..=21 => SOp::Fstat(slot(rng)),
            22 => SOp::Fstatat(path(rng)),
            23 => {
                if rng.bool() {
                    SOp::GetFd(slot(rng))
                } else {
                    SOp::SetFd(slot(rng), rng.bool())
                }
            }
            24 => {
                if rng.bool() {
                    SOp::Nonblock(slot(rng), rng.bool())
                } else {
                    SOp::Access(slot(rng))
                }
            }
            25 => SOp::Umask(rng.below(UMASKS.len() as u32) as u8),
            26 => {
                if rng.below(3) == 0 {
                    // (never upwards: the directories above the scratch
                    // directory are not mirrored in the simulated tree)
                    let mut p = path(rng);
                    while PATHS[p as usize].contains("..") {
                        p = path(rng);
                    }
                    SOp::Chdir(p)
                } else {
                    SOp::Getcwd
                }
            }
            27 => SOp::ListDir(path(rng)),
            28 if rng.bool() => SOp::IsDir(path(rng)),
            28 => SOp::IsExec(path(rng)),
            29 if rng.bool() => SOp::Pipe,
            29 if rng.bool() => SOp::Limit(*rng.pick(&[3u8, 4, 5, 6, 8, 12])),
            29 if rng.bool() => SOp::Zombie(*rng.pick(&[0u8, 3, 7])),
            29 if rng.bool() => {
                let mut steps: Vec<u8> = (0..rng.range(2, 7)).map(|_| *rng.pick(&[0u8, 0, 0, 2, 2, 2, 3, 4, 5, 6])).collect();
                // (TERM and HUP pending together in a stopped child: which one
                // kills it when it is continued is unspecified - one kind only)
                if let Some(f) = steps.iter().copied().find(|s| *s == 3 || *s == 6) {
                    for s in &mut steps {
                        if *s == 3 || *s == 6 {
                            *s = f;
                        }
                    }
                }
                SOp::ChildSeq(steps)
            }
            29 => {
                let sig = |rng: &mut Rng| *rng.pick(&[0u8, 0, 0, 1, 2, 2, 2, 3, 4]);
                let mut steps: Vec<(u8, u8)> = Vec::new();
                if rng.bool() {
                    // a signal raised while blocked, then another one
                    let (x, y) = (sig(rng), sig(rng));
                    steps.push((0, x));
                    if rng.bool() {
                        steps.push((0, y));
                    }
                    steps.push((2, x));
                    steps.push((2, y));
                    if rng.bool() {
                        steps.push((3, 0));
                    }
                    match rng.below(4) {
                        0 => {
                            // ignored while pending (discarded), then caught again
                            steps.push((4, x));
                            steps.push((5, x));
                        }
                        1 => {
                            // default action while blocked and pending, then a
                            // handler again: the signal is still pending and
                            // reaches the handler when it is unblocked
                            steps.push((6, x));
                            steps.push((5, x));
                        }
                        _ => {}
                    }
                    steps.push((1, x));
                    steps.push((3, 0));
                } else {
                    for _ in 0..rng.range(2, 8) {
                        steps.push((*rng.pick(&[0u8, 0, 1, 1, 2, 2, 2, 2, 3, 4, 5]), sig(rng)));
                    }
                }
                SOp::SigSeq(steps)
            }
            _ => SOp::Tmpfile,
        });
    }
    SHist { ops }
}

fn now<F: Future>(f: F) -> Option<F::Output> {
    let mut f = Box::pin(f);
    let mut cx = Context::from_waker(Waker::noop());
    match f.as_mut().poll(&mut cx) {
        Poll::Ready(v) => Some(v),
        Poll::Pending => None,
    }
}

fn errname(e: Errno) -> String {
    format!("{e:?}")
}

/// Issues the operations; one result line per operation. `base` is the
/// directory the history started in (its name is hidden in `getcwd` results).
pub fn run_ops<S>(
    sys: &S,
    h: &SHist,
    base: &str,
    zombie: &dyn Fn(u8) -> String,
    sigseq: &dyn Fn(&[(u8, u8)]) -> String,
    childseq: &dyn Fn(&[u8]) -> String,
) -> Vec<String>
where
    S: Open
        + Close
        + Read
        + Write
        + Seek
        + Dup
        + Fcntl
        + Fstat
        + Umask
        + GetCwd
        + Chdir
        + yash_env::system::Pipe
        + yash_env::system::IsExecutableFile
        + yash_env::system::resource::GetRlimit
        + yash_env::system::resource::SetRlimit,
{
    let mut slots: Vec<Option<Fd>> = vec![None; 5];
    let mut out = Vec::new();
    let mut counter: u8 = 0;
    let stat_line = |st: &S::Stat| {
        if st.is_fifo() {
            // (size and permission bits of an anonymous pipe are unspecified)
            return "type=Fifo".to_string();
        }
        format!("type={:?} size={} perm={:o}", st.r#type(), if st.is_directory() { 0 } else { st.size() }, st.mode().bits() & 0o7777)
    };
    for op in &h.ops {
        let line = match op {
            SOp::Open(p, access, flags, mode) => {
                let path = CString::new(PATHS[*p as usize]).unwrap();
                let access = match access {
                    0 => OfdAccess::ReadOnly,
                    1 => OfdAccess::WriteOnly,
                    _ => OfdAccess::ReadWrite,
                };
                let mut fl: EnumSet<OpenFlag> = EnumSet::empty();
                for (bit, f) in [
                    (1u8, OpenFlag::Create),
                    (2, OpenFlag::Exclusive),
                    (4, OpenFlag::Truncate),
                    (8, OpenFlag::Append),
                    (16, OpenFlag::Directory),
                    (32, OpenFlag::CloseOnExec),
                ] {
                    if flags & bit != 0 {
                        fl |= f;
                    }
                }
                // (creating below a missing directory is a listed modelling
                // limit of the simulated file system: such a call is made
                // without O_CREAT on both sides)
                if let Some((parent, _)) = PATHS[*p as usize].rsplit_once('/')
                    && !sys.is_directory(&CString::new(parent).unwrap())
                {
                    fl.remove(OpenFlag::Create);
                    fl.remove(OpenFlag::Exclusive);
                }
                let mode = Mode::from_bits_truncate(MODES[*mode as usize] as _);
                match now(sys.open(&path, access, fl, mode)) {
                    None => "open: pending".to_string(),
                    Some(Err(e)) => format!("open: {}", errname(e)),
                    Some(Ok(fd)) => match slots.iter().position(Option::is_none) {
                        Some(k) => {
                            slots[k] = Some(fd);
                            format!("open: ok slot {k} fd {}", fd.0)
                        }
                        None => {
                            sys.close(fd).ok();
                            "open: ok (no free slot, closed)".to_string()
                        }
                    },
                }
            }
            SOp::Close(s) => match slots[*s as usize].take() {
                Some(fd) => format!("close: {:?}", sys.close(fd).map_err(errname)),
                None => "close: -".into(),
            },
            SOp::Read(s, n) => match slots[*s as usize] {
                Some(fd) => {
                    let mut buf = vec![0u8; *n as usize];
                    match now(sys.read(fd, &mut buf)) {
                        None => "read: pending".into(),
                        Some(Err(e)) => format!("read: {}", errname(e)),
                        Some(Ok(c)) => format!("read: {c} {:?}", String::from_utf8_lossy(&buf[..c])),
                    }
                }
                None => "read: -".into(),
            },
            SOp::Write(s, n) => match slots[*s as usize] {
                Some(fd) => {
                    let data: Vec<u8> = (0..*n)
                        .map(|_| {
                            counter = counter.wrapping_add(1);
                            b'a' + counter % 26
                        })
                        .collect();
                    match now(sys.write(fd, &data)) {
                        None => "write: pending".into(),
                        Some(r) => format!("write: {:?}", r.map_err(errname)),
                    }
                }
                None => "write: -".into(),
            },
            // (the offset of a directory is unspecified; the shell never asks)
            SOp::Lseek(s, _, _) if slots[*s as usize].is_some_and(|fd| sys.fstat(fd).is_ok_and(|st| st.is_directory())) => "lseek: (directory)".into(),
            SOp::Lseek(s, whence, off) => match slots[*s as usize] {
                Some(fd) => {
                    let pos = match whence {
                        0 => SeekFrom::Start((*off).max(0) as u64),
                        1 => SeekFrom::Current(*off as i64),
                        _ => SeekFrom::End(*off as i64),
                    };
                    format!("lseek: {:?}", sys.lseek(fd, pos).map_err(errname))
                }
                None => "lseek: -".into(),
            },
            SOp::Dup(s, min, cloexec) => match slots[*s as usize] {
                Some(fd) => {
                    let flags = if *cloexec { EnumSet::only(FdFlag::CloseOnExec) } else { EnumSet::empty() };
                    match sys.dup(fd, Fd(*min as i32), flags) {
                        Err(e) => format!("dup: {}", errname(e)),
                        Ok(n) => {
                            let ok_min = n.0 >= *min as i32;
                            match slots.iter().position(Option::is_none) {
                                Some(k) => {
                                    slots[k] = Some(n);
                                    format!("dup: ok slot {k} fd {} at-or-above-min={ok_min}", n.0)
                                }
                                None => {
                                    sys.close(n).ok();
                                    format!("dup: ok (closed) at-or-above-min={ok_min}")
                                }
                            }
                        }
                    }
                }
                None => "dup: -".into(),
            },
            SOp::Dup2(a, b) => match (slots[*a as usize], slots[*b as usize]) {
                (Some(from), Some(to)) => format!("dup2: {:?}", sys.dup2(from, to).map(|fd| fd == to).map_err(errname)),
                _ => "dup2: -".into(),
            },
            SOp::Fstat(s) => match slots[*s as usize] {
                Some(fd) => match sys.fstat(fd) {
                    Ok(st) => format!("fstat: {}", stat_line(&st)),
                    Err(e) => format!("fstat: {}", errname(e)),
                },
                None => "fstat: -".into(),
            },
            SOp::Fstatat(p) => {
                let path = CString::new(PATHS[*p as usize]).unwrap();
                match sys.fstatat(yash_env::system::AT_FDCWD, &path, true) {
                    Ok(st) => format!("fstatat: {}", stat_line(&st)),
                    Err(e) => format!("fstatat: {}", errname(e)),
                }
            }
            SOp::GetFd(s) => match slots[*s as usize] {
                Some(fd) => format!("getfd: {:?}", sys.fcntl_getfd(fd).map(|f| f.contains(FdFlag::CloseOnExec)).map_err(errname)),
                None => "getfd: -".into(),
            },
            SOp::SetFd(s, on) => match slots[*s as usize] {
                Some(fd) => {
                    let flags = if *on { EnumSet::only(FdFlag::CloseOnExec) } else { EnumSet::empty() };
                    format!("setfd: {:?}", sys.fcntl_setfd(fd, flags).map_err(errname))
                }
                None => "setfd: -".into(),
            },
            // (a blocking pipe would make the real side wait for ever)
            SOp::Nonblock(s, _) if slots[*s as usize].is_some_and(|fd| sys.fstat(fd).is_ok_and(|st| st.is_fifo())) => "nonblock: (pipe)".into(),
            SOp::Nonblock(s, on) => match slots[*s as usize] {
                Some(fd) => format!("nonblock: {:?}", sys.get_and_set_nonblocking(fd, *on).map_err(errname)),
                None => "nonblock: -".into(),
            },
            SOp::Access(s) => match slots[*s as usize] {
                Some(fd) => format!("access: {:?}", sys.ofd_access(fd).map_err(errname)),
                None => "access: -".into(),
            },
            SOp::Umask(m) => {
                let old = sys.umask(Mode::from_bits_truncate(UMASKS[*m as usize] as _));
                format!("umask: {:o}", old.bits() & 0o777)
            }
            SOp::Chdir(p) => {
                let path = CString::new(PATHS[*p as usize]).unwrap();
                format!("chdir: {:?}", sys.chdir(&path).map_err(errname))
            }
            SOp::Getcwd => match sys.getcwd() {
                Ok(p) => {
                    let s = p.to_string_lossy().into_owned();
                    format!("getcwd: {}", s.strip_prefix(base).map(|r| format!("<base>{r}")).unwrap_or(s))
                }
                Err(e) => format!("getcwd: {}", errname(e)),
            },
            SOp::ListDir(p) => {
                let path = CString::new(PATHS[*p as usize]).unwrap();
                match sys.opendir(&path) {
                    Err(e) => format!("listdir: {}", errname(e)),
                    Ok(mut dir) => {
                        let mut names = Vec::new();
                        let mut err = None;
                        loop {
                            match dir.next() {
                                Ok(Some(e)) => names.push(e.name.to_string_lossy().into_owned()),
                                Ok(None) => break,
                                Err(e) => {
                                    err = Some(e);
                                    break;
                                }
                            }
                        }
                        names.retain(|n| n != "." && n != "..");
                        names.sort();
                        format!("listdir: {names:?} {:?}", err.map(errname))
                    }
                }
            }
            SOp::IsDir(p) => {
                let path = CString::new(PATHS[*p as usize]).unwrap();
                format!("isdir: {}", sys.is_directory(&path))
            }
            SOp::BigWrite(_) => "bigwrite: -".into(),
            SOp::Zombie(st) => format!("zombie: {}", zombie(*st)),
            SOp::SigSeq(steps) => format!("sigseq: {}", sigseq(steps)),
            SOp::ChildSeq(steps) => format!("childseq: {}", childseq(steps)),
            SOp::IsExec(p) => {
                let path = CString::new(PATHS[*p as usize]).unwrap();
                format!("isexec: {}", sys.is_executable_file(&path))
            }
            SOp::Limit(n) => {
                use yash_env::system::resource::{LimitPair, Resource};
                match sys.getrlimit(Resource::NOFILE) {
                    Err(e) => format!("limit: {}", errname(e)),
                    Ok(old) => {
                        let r = sys.setrlimit(Resource::NOFILE, LimitPair { soft: *n as _, hard: old.hard });
                        format!("limit: {:?} now {:?}", r.map_err(errname), sys.getrlimit(Resource::NOFILE).map(|l| l.soft).map_err(errname))
                    }
                }
            }
            SOp::Pipe => match sys.pipe() {
                Err(e) => format!("pipe: {}", errname(e)),
                Ok((r, w)) => {
                    sys.get_and_set_nonblocking(r, true).ok();
                    sys.get_and_set_nonblocking(w, true).ok();
                    let free: Vec<usize> = slots.iter().enumerate().filter(|(_, s)| s.is_none()).map(|(k, _)| k).collect();
                    if free.len() >= 2 {
                        slots[free[0]] = Some(r);
                        slots[free[1]] = Some(w);
                        format!("pipe: ok slots {} {} fds {} {}", free[0], free[1], r.0, w.0)
                    } else {
                        sys.close(r).ok();
                        sys.close(w).ok();
                        "pipe: ok (closed)".into()
                    }
                }
            },
            SOp::Tmpfile => match sys.open_tmpfile(yash_env::path::Path::new("/tmp")) {
                Err(e) => format!("tmpfile: {}", errname(e)),
                Ok(fd) => {
                    let r = now(sys.write(fd, b"tmp"));
                    let pos = sys.lseek(fd, SeekFrom::Start(0));
                    let mut buf = [0u8; 8];
                    let rd = now(sys.read(fd, &mut buf));
                    sys.close(fd).ok();
                    format!("tmpfile: write {:?} seek {:?} read {:?}", r.map(|x| x.map_err(errname)), pos.map_err(errname), rd.map(|x| x.map_err(errname)))
                }
            },
        };
        out.push(line);
    }
    out
}

/// (relative path, Some(content) / None = directory, mode)
pub fn initial_tree() -> Vec<(&'static str, Option<&'static [u8]>, u32)> {
    vec![
        ("e1", Some(b"e1 line1\ne1 line2\n"), 0o644),
        ("d", None, 0o755),
        ("d/a.txt", Some(b"da\n"), 0o644),
        ("d/sub", None, 0o755),
        ("d/sub/deep.txt", Some(b"deep\n"), 0o600),
        ("empty", None, 0o755),
        ("x.sh", Some(b"echo x\n"), 0o755),
        ("d/x2", Some(b"echo x2\n"), 0o710),
    ]
}

/// The simulated side.
pub fn run_virtual(h: &SHist) -> Vec<String> {
    use yash_env::system::r#virtual::{FileBody, Inode, VirtualSystem};
    yash_env::system::r#virtual::sim_hook::install(None);
    let sys = VirtualSystem::new();
    {
        let mut st = sys.state.borrow_mut();
        for (p, content, mode) in initial_tree() {
            let full = format!("/base/work/{p}");
            let inode = match content {
                Some(c) => crate::world::file_inode(c, mode),
                None => std::rc::Rc::new(std::cell::RefCell::new(Inode {
                    body: FileBody::Directory { files: Default::default() },
                    permissions: Mode::from_bits_truncate(mode as _),
                })),
            };
            st.file_system.save(&full, inode).unwrap();
        }
        let tmp = std::rc::Rc::new(std::cell::RefCell::new(Inode {
            body: FileBody::Directory { files: Default::default() },
            permissions: Mode::from_bits_truncate(0o777),
        }));
        st.file_system.save("/tmp", tmp).ok();
    }
    sys.umask(Mode::from_bits_truncate(0o022));
    sys.chdir(c"/base/work").ok();
    let zsys = sys.clone();
    let ssys = sys.clone();
    let csys = sys.clone();
    run_ops(
        &sys,
        h,
        "/base/work",
        &move |st| zombie_virtual(&zsys, st),
        &move |steps| sigseq_virtual(&ssys, steps),
        &move |steps| childseq_virtual(&csys, steps),
    )
}

const CHILDSEQ_NAMES: [&str; 7] = ["STOP", "TSTP", "CONT", "TERM", "KILL", "USR1", "HUP"];

/// What POSIX prescribes for a sleeping child with default dispositions
/// (USR1 ignored): 0 running, 1 stopped, 2 dead. Used by the real side to know
/// what to wait for, never compared with anything.
fn childseq_model(state: &mut u8, pending_fatal: &mut bool, step: u8) {
    match (CHILDSEQ_NAMES[step as usize % 7], *state) {
        (_, 2) => {}
        ("KILL", _) => *state = 2,
        ("STOP" | "TSTP", 0) => *state = 1,
        ("CONT", 1) => *state = if *pending_fatal { 2 } else { 0 },
        ("TERM" | "HUP", 0) => *state = 2,
        ("TERM" | "HUP", 1) => *pending_fatal = true,
        _ => {}
    }
}

/// kill + wait-until-quiet for each step, generic over the system. `settle`
/// is called between the two with the state the model expects (the real side
/// waits for the kernel to get there).
fn childseq_ops<S>(sys: &S, pid: yash_env::job::Pid, steps: &[u8], settle: &dyn Fn(u8)) -> String
where
    S: yash_env::system::SendSignal + yash_env::system::Wait + yash_env::system::Signals,
{
    use yash_env::job::{ProcessResult, ProcessState};
    let sigs = [S::SIGSTOP, S::SIGTSTP, S::SIGCONT, S::SIGTERM, S::SIGKILL, S::SIGUSR1, S::SIGHUP];
    let name = |n: yash_env::signal::Number| -> String {
        sigs.iter().position(|s| *s == n).map_or_else(|| "OTHER".to_string(), |i| CHILDSEQ_NAMES[i].to_string())
    };
    let (mut state, mut pending_fatal) = (0u8, false);
    let mut out: Vec<String> = Vec::new();
    for st in steps {
        let i = *st as usize % 7;
        let k = match now(sys.kill(pid, Some(sigs[i]))) {
            Some(Ok(())) => "ok".to_string(),
            Some(Err(e)) => errname(e),
            None => "pending".to_string(),
        };
        childseq_model(&mut state, &mut pending_fatal, *st);
        settle(state);
        let mut reports: Vec<String> = Vec::new();
        for _ in 0..4 {
            match sys.wait(pid) {
                Ok(None) => break,
                Ok(Some((_, ProcessState::Running))) => reports.push("continued".into()),
                Ok(Some((_, ProcessState::Halted(ProcessResult::Stopped(n))))) => reports.push(format!("stopped:{}", name(n))),
                Ok(Some((_, ProcessState::Halted(ProcessResult::Exited(e))))) => reports.push(format!("exited:{}", e.0)),
                Ok(Some((_, ProcessState::Halted(ProcessResult::Signaled { signal, .. })))) => reports.push(format!("killed:{}", name(signal))),
                Err(e) => {
                    reports.push(errname(e));
                    break;
                }
            }
        }
        out.push(format!("{}={k}[{}]", CHILDSEQ_NAMES[i], reports.join(",")));
    }
    out.join(" ")
}

/// `SOp::ChildSeq` on the simulated kernel.
fn childseq_virtual(sys: &yash_env::system::r#virtual::VirtualSystem, steps: &[u8]) -> String {
    use yash_env::job::Pid;
    use yash_env::system::r#virtual::{Process, SIGUSR1, VirtualSystem};
    use yash_env::system::{Disposition, SendSignal as _, Sigaction as _, Wait as _};
    let pid = {
        let mut st = sys.state.borrow_mut();
        let pid = Pid(st.processes.keys().map(|p| p.0).max().unwrap_or(2) + 1);
        let child = Process::fork_from(sys.process_id, st.processes.get(&sys.process_id).unwrap());
        st.processes.insert(pid, child);
        pid
    };
    let child = VirtualSystem {
        state: std::rc::Rc::clone(&sys.state),
        process_id: pid,
    };
    child.sigaction(SIGUSR1, Disposition::Ignore).ok();
    let r = childseq_ops(sys, pid, steps, &|_| ());
    // (whatever is left of the child is removed again)
    let _ = now(sys.kill(pid, Some(yash_env::system::r#virtual::SIGKILL)));
    let _ = sys.wait(pid);
    sys.state.borrow_mut().processes.remove(&pid);
    r
}

/// The same on the real kernel: the child sleeps in pause(); after each signal
/// the parent polls /proc for the state the model expects (at most 1.2 s per step).
fn childseq_real(sys: &yash_env::system::real::RealSystem, steps: &[u8]) -> String {
    // (the history may have lowered the soft limit on open files, and the
    // probe reads /proc: lifted for its duration, put back afterwards)
    // SAFETY: plain libc calls in a single-threaded process
    let lim = unsafe {
        let mut lim: libc::rlimit = std::mem::zeroed();
        libc::getrlimit(libc::RLIMIT_NOFILE, &mut lim);
        let lifted = libc::rlimit { rlim_cur: lim.rlim_max, rlim_max: lim.rlim_max };
        libc::setrlimit(libc::RLIMIT_NOFILE, &lifted);
        lim
    };
    let r = childseq_real_inner(sys, steps);
    // SAFETY: as above
    unsafe {
        libc::setrlimit(libc::RLIMIT_NOFILE, &lim);
    }
    r
}

fn childseq_real_inner(sys: &yash_env::system::real::RealSystem, steps: &[u8]) -> String {
    // SAFETY: plain libc calls in a single-threaded process
    let pid = unsafe {
        let pid = libc::fork();
        if pid == 0 {
            for s in [libc::SIGTSTP, libc::SIGCONT, libc::SIGTERM, libc::SIGHUP, libc::SIGINT, libc::SIGQUIT] {
                libc::signal(s, libc::SIG_DFL);
            }
            libc::signal(libc::SIGUSR1, libc::SIG_IGN);
            let mut all: libc::sigset_t = std::mem::zeroed();
            libc::sigfillset(&mut all);
            libc::sigprocmask(libc::SIG_UNBLOCK, &all, std::ptr::null_mut());
            // (tells the parent that the dispositions are in place)
            libc::raise(libc::SIGSTOP);
            loop {
                libc::pause();
            }
        }
        if pid > 0 {
            let mut st = 0;
            libc::waitpid(pid, &mut st, libc::WUNTRACED);
            libc::kill(pid, libc::SIGCONT);
            libc::waitpid(pid, &mut st, libc::WCONTINUED);
        }
        pid
    };
    if pid < 0 {
        return "fork failed".into();
    }
    let letter = |pid: i32| -> Option<char> {
        let stat = std::fs::read_to_string(format!("/proc/{pid}/stat")).ok()?;
        stat.rsplit_once(") ")?.1.chars().next()
    };
    let settle = |want: u8| {
        let deadline = std::time::Instant::now() + std::time::Duration::from_millis(1200);
        loop {
            let ok = match (want, letter(pid)) {
                (0, Some('S' | 'R')) => true,
                (1, Some('T')) => true,
                (2, Some('Z') | None) => true,
                _ => false,
            };
            if ok || std::time::Instant::now() > deadline {
                break;
            }
            std::thread::sleep(std::time::Duration::from_micros(200));
        }
    };
    settle(0);
    let r = childseq_ops(sys, yash_env::job::Pid(pid), steps, &settle);
    // SAFETY: as above
    unsafe {
        libc::kill(pid, libc::SIGKILL);
        let mut st = 0;
        libc::waitpid(pid, &mut st, 0);
    }
    r
}

const SIGSEQ_NAMES: [&str; 5] = ["TSTP", "TTIN", "CONT", "USR1", "TERM"];

/// `SOp::SigSeq` on the simulated kernel: a fresh process with handlers for the
/// five signals; "note" lists the signals caught since the last note.
fn sigseq_virtual(sys: &yash_env::system::r#virtual::VirtualSystem, steps: &[(u8, u8)]) -> String {
    use yash_env::job::Pid;
    use yash_env::system::r#virtual::sigset::Sigset;
    use yash_env::system::r#virtual::{Process, SIGCONT, SIGTERM, SIGTSTP, SIGTTIN, SIGUSR1, VirtualSystem};
    use yash_env::system::{CaughtSignals as _, Disposition, SendSignal as _, Sigaction as _, Sigmask as _, SigmaskOp};
    let sigs = [SIGTSTP, SIGTTIN, SIGCONT, SIGUSR1, SIGTERM];
    let pid = {
        let mut st = sys.state.borrow_mut();
        let pid = Pid(st.processes.keys().map(|p| p.0).max().unwrap_or(2) + 1);
        let child = Process::fork_from(sys.process_id, st.processes.get(&sys.process_id).unwrap());
        st.processes.insert(pid, child);
        pid
    };
    let child = VirtualSystem {
        state: std::rc::Rc::clone(&sys.state),
        process_id: pid,
    };
    for s in sigs {
        child.sigaction(s, Disposition::Catch).ok();
    }
    let mut out: Vec<String> = Vec::new();
    let mut note = |child: &VirtualSystem| {
        let mut got: Vec<usize> = child.caught_signals().into_iter().filter_map(|c| sigs.iter().position(|s| *s == c)).collect();
        got.sort();
        got.dedup();
        out.push(format!("[{}]", got.iter().map(|i| SIGSEQ_NAMES[*i]).collect::<Vec<_>>().join(" ")));
    };
    for (op, s) in steps {
        let sig = sigs[*s as usize % 5];
        match op {
            0 | 1 => {
                let how = if *op == 0 { SigmaskOp::Add } else { SigmaskOp::Remove };
                let _ = now(child.sigmask(Some((how, &Sigset::from(sig))), None));
            }
            2 => {
                let _ = now(child.kill(pid, Some(sig)));
            }
            4 => {
                child.sigaction(sig, Disposition::Ignore).ok();
            }
            5 => {
                child.sigaction(sig, Disposition::Catch).ok();
            }
            6 => {
                child.sigaction(sig, Disposition::Default).ok();
            }
            _ => note(&child),
        }
    }
    for s in sigs {
        let _ = now(child.sigmask(Some((SigmaskOp::Remove, &Sigset::from(s))), None));
    }
    note(&child);
    let state = format!("{:?}", sys.state.borrow().processes[&pid].state());
    // (the probe process is not a task: it is removed again)
    sys.state.borrow_mut().processes.remove(&pid);
    format!("{} {}", out.join(" "), if state.contains("Running") { "running" } else { "NOT-RUNNING" })
}

/// The same on the real kernel, in a forked child (plain libc calls).
fn sigseq_real(steps: &[(u8, u8)]) -> String {
    use std::sync::atomic::{AtomicU32, Ordering};
    static HITS: [AtomicU32; 5] = [AtomicU32::new(0), AtomicU32::new(0), AtomicU32::new(0), AtomicU32::new(0), AtomicU32::new(0)];
    const SIGS: [libc::c_int; 5] = [libc::SIGTSTP, libc::SIGTTIN, libc::SIGCONT, libc::SIGUSR1, libc::SIGTERM];
    extern "C" fn handler(n: libc::c_int) {
        if let Some(i) = SIGS.iter().position(|s| *s == n) {
            HITS[i].fetch_add(1, Ordering::SeqCst);
        }
    }
    // SAFETY: plain libc calls in a single-threaded process; the child only
    // uses async-signal-safe calls besides formatting its answer
    unsafe {
        // (the history may have lowered the soft limit on open files: lifted
        // for the probe's own pipe, put back afterwards)
        let mut lim: libc::rlimit = std::mem::zeroed();
        libc::getrlimit(libc::RLIMIT_NOFILE, &mut lim);
        let lifted = libc::rlimit { rlim_cur: lim.rlim_max, rlim_max: lim.rlim_max };
        libc::setrlimit(libc::RLIMIT_NOFILE, &lifted);
        let mut fds = [0 as libc::c_int; 2];
        let rc = libc::pipe(fds.as_mut_ptr());
        libc::setrlimit(libc::RLIMIT_NOFILE, &lim);
        if rc != 0 {
            return "pipe failed".into();
        }
        let pid = libc::fork();
        if pid < 0 {
            return "fork failed".into();
        }
        if pid == 0 {
            libc::close(fds[0]);
            for s in SIGS {
                libc::signal(s, handler as extern "C" fn(libc::c_int) as libc::sighandler_t);
            }
            let mut all: libc::sigset_t = std::mem::zeroed();
            libc::sigemptyset(&mut all);
            for s in SIGS {
                libc::sigaddset(&mut all, s);
            }
            libc::sigprocmask(libc::SIG_UNBLOCK, &all, std::ptr::null_mut());
            let mut out: Vec<String> = Vec::new();
            let mut note = || {
                let got: Vec<&str> = (0..5).filter(|i| HITS[*i].swap(0, Ordering::SeqCst) > 0).map(|i| SIGSEQ_NAMES[i]).collect();
                out.push(format!("[{}]", got.join(" ")));
            };
            for (op, s) in steps {
                let sig = SIGS[*s as usize % 5];
                match op {
                    0 | 1 => {
                        let mut set: libc::sigset_t = std::mem::zeroed();
                        libc::sigemptyset(&mut set);
                        libc::sigaddset(&mut set, sig);
                        libc::sigprocmask(if *op == 0 { libc::SIG_BLOCK } else { libc::SIG_UNBLOCK }, &set, std::ptr::null_mut());
                    }
                    2 => {
                        libc::kill(libc::getpid(), sig);
                    }
                    4 => {
                        libc::signal(sig, libc::SIG_IGN);
                    }
                    5 => {
                        libc::signal(sig, handler as extern "C" fn(libc::c_int) as libc::sighandler_t);
                    }
                    6 => {
                        libc::signal(sig, libc::SIG_DFL);
                    }
                    _ => note(),
                }
            }
            libc::sigprocmask(libc::SIG_UNBLOCK, &all, std::ptr::null_mut());
            note();
            let text = format!("{} running", out.join(" "));
            libc::write(fds[1], text.as_ptr() as *const libc::c_void, text.len());
            libc::_exit(0);
        }
        libc::close(fds[1]);
        let mut buf = [0u8; 1024];
        let mut text = Vec::new();
        loop {
            let n = libc::read(fds[0], buf.as_mut_ptr() as *mut libc::c_void, buf.len());
            if n <= 0 {
                break;
            }
            text.extend_from_slice(&buf[..n as usize]);
        }
        libc::close(fds[0]);
        let mut st = 0;
        libc::waitpid(pid, &mut st, 0);
        if text.is_empty() {
            return format!("NOT-RUNNING (wait status {st})");
        }
        String::from_utf8_lossy(&text).into_owned()
    }
}

/// kill / wait on a child that has exited but has not been waited for
/// (simulated kernel).
fn zombie_virtual(sys: &yash_env::system::r#virtual::VirtualSystem, status: u8) -> String {
    use yash_env::job::Pid;
    use yash_env::system::r#virtual::{Process, SIGTERM, VirtualSystem};
    use yash_env::system::{Exit as _, SendSignal as _, Wait as _};
    let pid = {
        let mut st = sys.state.borrow_mut();
        let pid = Pid(st.processes.keys().map(|p| p.0).max().unwrap_or(2) + 1);
        let child = Process::fork_from(sys.process_id, st.processes.get(&sys.process_id).unwrap());
        st.processes.insert(pid, child);
        pid
    };
    let child = VirtualSystem {
        state: std::rc::Rc::clone(&sys.state),
        process_id: pid,
    };
    let _ = now(child.exit(yash_env::semantics::ExitStatus(status as i32)));
    let k0 = now(sys.kill(pid, None)).map(|r| r.map_err(errname));
    let kt = now(sys.kill(pid, Some(SIGTERM))).map(|r| r.map_err(errname));
    let w = sys.wait(pid).map(|o| o.map(|(_, s)| format!("{s:?}"))).map_err(errname);
    let k1 = now(sys.kill(pid, None)).map(|r| r.map_err(errname));
    let w2 = sys.wait(pid).map(|o| o.is_some()).map_err(errname);
    format!("kill0 {k0:?} killTERM {kt:?} wait {w:?} kill0-after {k1:?} wait-again {w2:?}")
}

/// The same on the real kernel.
fn zombie_real(status: u8) -> String {
    // SAFETY: plain libc calls in a single-threaded process
    unsafe {
        let pid = libc::fork();
        if pid == 0 {
            libc::_exit(status as i32);
        }
        if pid < 0 {
            return "fork failed".into();
        }
        // wait until the child is a zombie, without reaping it
        let mut info: libc::siginfo_t = std::mem::zeroed();
        libc::waitid(libc::P_PID, pid as libc::id_t, &mut info, libc::WEXITED | libc::WNOWAIT);
        let res = |r: i32| -> Result<(), String> { if r == 0 { Ok(()) } else { Err(format!("Errno({})", *libc::__errno_location())) } };
        let k0 = Some(res(libc::kill(pid, 0)));
        let kt = Some(res(libc::kill(pid, libc::SIGTERM)));
        let mut st = 0;
        let w: Result<Option<String>, String> = if libc::waitpid(pid, &mut st, 0) == pid {
            Ok(Some(if libc::WIFEXITED(st) {
                format!("Halted(Exited(ExitStatus({})))", libc::WEXITSTATUS(st))
            } else {
                format!("other({st})")
            }))
        } else {
            Err(format!("Errno({})", *libc::__errno_location()))
        };
        let k1 = Some(res(libc::kill(pid, 0)));
        let w2: Result<bool, String> = if libc::waitpid(pid, &mut st, libc::WNOHANG) >= 0 { Ok(true) } else { Err(format!("Errno({})", *libc::__errno_location())) };
        format!("kill0 {k0:?} killTERM {kt:?} wait {w:?} kill0-after {k1:?} wait-again {w2:?}")
    }
}

/// The real side, inside the child process (`yash-sim real-sys`): histories as
/// JSON on stdin, one scratch directory each; results as JSON on stdout.
pub fn real_sys_main() -> ! {
    use std::io::Read as _;
    use std::os::unix::fs::PermissionsExt as _;
    let mut input = String::new();
    std::io::stdin().read_to_string(&mut input).ok();
    let hists: Vec<SHist> = serde_json::from_str(&input).unwrap_or_default();
    // SAFETY: plain libc call; a write to a pipe without readers must fail with
    // EPIPE here as it does in the simulated kernel (which has no SIGPIPE)
    unsafe { libc::signal(libc::SIGPIPE, libc::SIG_IGN) };
    let root = std::env::current_dir().unwrap();
    // SAFETY: the only RealSystem instance in this single-threaded process.
    let sys = unsafe { yash_env::system::real::RealSystem::new() };
    let mut all: Vec<Vec<String>> = Vec::new();
    for (i, h) in hists.iter().enumerate() {
        let work = root.join(format!("h{i}")).join("work");
        std::fs::create_dir_all(&work).unwrap();
        for (p, content, mode) in initial_tree() {
            let path = work.join(p);
            match content {
                None => std::fs::create_dir_all(&path).unwrap(),
                Some(c) => std::fs::write(&path, c).unwrap(),
            }
            std::fs::set_permissions(&path, std::fs::Permissions::from_mode(mode)).unwrap();
        }
        std::env::set_current_dir(&work).unwrap();
        sys.umask(Mode::from_bits_truncate(0o022));
        let base = work.to_string_lossy().into_owned();
        all.push(run_ops(&sys, h, &base, &zombie_real, &sigseq_real, &|steps| childseq_real(&sys, steps)));
        // descriptors left open by the history are closed by hand: the next
        // history must start with the same free descriptors
        for fd in 3..64 {
            sys.close(Fd(fd)).ok();
        }
    }
    println!("{}", serde_json::to_string(&all).unwrap());
    std::process::exit(0)
}

/// Runs each history on the real kernel in a child process of its own (fresh
/// descriptors, umask and scratch directory).
pub fn run_real_batch(hists: &[SHist]) -> Option<Vec<Vec<String>>> {
    use std::io::Write as _;
    use std::process::{Command, Stdio};
    static N: std::sync::atomic::AtomicU64 = std::sync::atomic::AtomicU64::new(0);
    let exe = std::env::current_exe().ok()?;
    let mut all = Vec::new();
    for h in hists {
        let n = N.fetch_add(1, std::sync::atomic::Ordering::Relaxed);
        let dir = std::env::temp_dir().join(format!("yash-c19s-{}-{}", std::process::id(), n));
        let _ = std::fs::remove_dir_all(&dir);
        std::fs::create_dir_all(&dir).ok()?;
        let mut child = Command::new(&exe)
            .arg("real-sys")
            .current_dir(&dir)
            .env_clear()
            .stdin(Stdio::piped())
            .stdout(Stdio::piped())
            .stderr(Stdio::null())
            .spawn()
            .ok()?;
        child.stdin.take()?.write_all(serde_json::to_string(std::slice::from_ref(h)).ok()?.as_bytes()).ok()?;
        let start = std::time::Instant::now();
        let finished = loop {
            match child.try_wait() {
                Ok(Some(_)) => break true,
                Ok(None) if start.elapsed().as_secs() >= 10 => {
                    child.kill().ok();
                    child.wait().ok();
                    break false;
                }
                Ok(None) => std::thread::sleep(std::time::Duration::from_millis(1)),
                Err(_) => break false,
            }
        };
        let mut stdout = Vec::new();
        if let Some(mut so) = child.stdout.take() {
            use std::io::Read as _;
            so.read_to_end(&mut stdout).ok();
        }
        let _ = std::fs::remove_dir_all(&dir);
        if !finished {
            all.push(vec!["<the real side did not finish within 10 s>".to_string()]);
            continue;
        }
        let mut r: Vec<Vec<String>> = serde_json::from_slice(&stdout).ok()?;
        all.push(r.pop()?);
    }
    Some(all)
}

/// Compares one history; returns (class, key, detail) on divergence.
pub fn compare(h: &SHist, sim: &[String], real: &[String], reach: &mut BTreeMap<&'static str, u64>) -> Option<(String, String, String)> {
    // Which of several applicable errors a call reports is not specified: when
    // no descriptor is available the kernels may name that (EMFILE; EINVAL for
    // a dup whose minimum is beyond the limit) or another reason of failure.
    let same = |a: &str, b: &str| -> bool {
        if a == b {
            return true;
        }
        let failed = |l: &str| l.contains(": Errno(");
        let no_fd = |l: &str| l.ends_with("Errno(24)") || (l.starts_with("dup:") && l.ends_with("Errno(22)"));
        failed(a) && failed(b) && (no_fd(a) || no_fd(b))
    };
    for (i, (a, b)) in sim.iter().zip(real.iter()).enumerate() {
        if !same(a, b) {
            let kind = a.split(':').next().unwrap_or("?").to_string();
            return Some((
                "divergence:syscall".into(),
                format!("sys:{kind}"),
                format!(
                    "operation #{i} {:?}: simulated kernel `{a}`, real kernel `{b}`\n--- history ---\n{}\n--- results so far (simulated) ---\n{}",
                    h.ops[i],
                    serde_json::to_string(&h.ops).unwrap_or_default(),
                    sim[..=i].join("\n")
                ),
            ));
        }
        if a.contains("ok") || a.contains("Ok(") {
            *reach.entry("system calls that succeeded on both sides").or_insert(0) += 1;
        } else {
            *reach.entry("system calls that failed alike on both sides").or_insert(0) += 1;
        }
    }
    if sim.len() != real.len() {
        return Some(("divergence:syscall".into(), "sys:length".into(), "result lists differ in length".into()));
    }
    None
}

pub fn shrink(h: &SHist) -> Vec<SHist> {
    let mut out = Vec::new();
    for i in 0..h.ops.len() {
        let mut ops = h.ops.clone();
        ops.remove(i);
        out.push(SHist { ops });
    }
    out
}
