//! C08 - nothing done in a subshell environment leaks into the parent; on
//! entry the subshell sees a copy of the parent's state (traps with command
//! actions reset, ignored signals kept).

use crate::harness::{Failure, Prop, Stats, Tier, hash_str};
use crate::rng::{Decider, Decision, Rng};
use crate::shellrun::{Observed, ScriptSpec, Viol, check_liveness, history_tail, obs_digest, run_script};
use crate::sim::{SimConfig, Strategy};
use serde::{Deserialize, Serialize};
use serde_json::{Value, json};
use std::collections::BTreeMap;

#[derive(Clone, Copy, Debug, Serialize, Deserialize, PartialEq, Eq)]
pub enum Kind {
    Paren,
    Cs,
    Pipe,
    Async,
    /// a pipeline of three commands (the parent shifts pipes between elements)
    Pipe3,
    /// `$(trap)`: although command traps are reset in the subshell, the listing
    /// shows the traps of the parent
    CsTrap,
    /// a pipeline element starts two asynchronous writers that share its
    /// standard output (a pipe with a slow reader, more data than it holds)
    /// and waits for them: afterwards its open files are as before, including
    /// the mode (O_NONBLOCK) of the shared open file description
    BigWriters,
    /// `v=$(kill -s USR1 $$)$( ... )` with a command trap for USR1 in the
    /// parent: the signal is still pending in the parent (blocked, not yet
    /// handled) when the second substitution is forked; pending signals are
    /// not part of what a child gets
    CsSig,
    /// a subshell changes an exported variable and ends with `exec UTILITY`;
    /// the parent starts an external utility right afterwards: the environment
    /// it passes (recorded by the simulated kernel at `execve`) is the parent's
    ExecEnv,
}

#[derive(Clone, Debug, Serialize, Deserialize, PartialEq)]
pub struct Test {
    pub id: u32,
    pub kind: Kind,
    /// mutators run by the parent before the subshell
    pub pre: Vec<String>,
    /// mutators run inside the subshell (second pipeline element: `child2`)
    pub child: Vec<String>,
    pub child2: Vec<String>,
    /// nested test executed inside the subshell
    pub nested: Option<Box<Test>>,
    /// the whole test runs inside a function (local variables, the
    /// function's positional parameters)
    #[serde(default)]
    pub in_function: bool,
    /// 1: the whole test runs inside a loop body, 2: inside the condition of
    /// an `if` (the parent's context stack is not empty when it forks)
    #[serde(default)]
    pub wrap: u8,
    /// (`( )` at the top level of a job-control shell only) the subshell stops
    /// itself: the shell goes on with a suspended job in its table and must
    /// have taken the terminal back; the job is resumed with `fg` afterwards
    #[serde(default)]
    pub stops: bool,
    /// (`BigWriters`) bytes written by each writer and their chunk size
    #[serde(default)]
    pub big: (u32, u32, u32),
}

#[derive(Clone, Debug, Serialize, Deserialize)]
pub struct Case {
    pub tests: Vec<Test>,
    /// the shell runs with job control (`sh -m`): subshells get process groups
    /// and the shell takes the terminal back after every foreground one
    #[serde(default)]
    pub job_control: bool,
    /// the script starts with `ulimit -n 10`: no descriptor for the shell's
    /// own use (>= 10) can be allocated any more, so whatever needs one fails,
    /// again and again - saving a redirected descriptor, the terminal of a
    /// job-control shell - and must leave nothing behind. Checked with the
    /// tolerant oracle (set by the driver, not by the generator).
    #[serde(default)]
    pub low_limit: bool,
    /// `sh -i`: the shell itself catches SIGINT and ignores SIGTERM and SIGQUIT;
    /// these dispositions are the shell's own and are not handed down: a
    /// subshell has them as the user's traps say (set by the driver)
    #[serde(default)]
    pub interactive: bool,
}

fn mutator(rng: &mut Rng, n: &mut u32) -> String {
    *n += 1;
    let k = *n;
    let j = rng.range(1, 3);
    match rng.below(42) {
        0..=2 => format!("x{j}=v{k}"),
        3 => format!("unset x{j}"),
        4 => format!("export ex{j}=v{k}"),
        5 => format!("export x{j}"),
        6 => format!("readonly ro{k}=v{k}"),
        7..=8 => format!("fn{j}() {{ echo body{k}; }}"),
        9 => format!("unset -f fn{j}"),
        10..=11 => format!("alias al{j}='echo a{k}'"),
        12 => format!("unalias al{j} 2>/dev/null"),
        13..=14 => format!(
            "set -o {}",
            rng.pick(&["allexport", "noclobber", "noglob", "pipefail", "hashondefinition", "notify", "ignoreeof"])
        ),
        15 => format!(
            "set +o {}",
            rng.pick(&["allexport", "noclobber", "noglob", "pipefail", "hashondefinition", "notify", "ignoreeof"])
        ),
        16 => format!("set -- p{k} q{k} r{k}"),
        17 => format!("set -- s{k} t{k}; shift"),
        18..=20 => format!("cd {}", rng.pick(&["/work", "/work/sub1", "/work/sub1/deep", "/tmp"])),
        21..=22 => format!("umask {}", rng.pick(&["027", "077", "022", "002"])),
        23 => format!("trap 'echo T{k}' USR1"),
        24 => "trap '' USR2".to_string(),
        25 => format!("trap - {}", rng.pick(&["USR1", "USR2", "INT"])),
        26 => format!("trap 'echo X{k}' {}", rng.pick(&["INT", "TERM", "QUIT"])),
        27 => format!("trap ': e{k}' EXIT"),
        28..=29 => format!("exec {}>|/work/o{j}", rng.range(3, 6)),
        30 => format!("exec {}>&-", rng.range(3, 6)),
        31 => format!("exec {}</work/e1", rng.range(3, 6)),
        32 => "exec </work/e1".to_string(),
        // a closed standard input: the next pipe()/open() of a subshell
        // mechanism lands on descriptor 0
        33 => "exec <&-".to_string(),
        34 => format!("exec {}<&-", rng.range(3, 6)),
        // array values, and `$!`
        35..=36 => format!("x{j}=(a{k} 'b c{k}' '')"),
        37 => format!("ar{j}=()"),
        38 => "{ : & }".to_string(),
        // `$?` on entry is the parent's
        39 => format!("rc {}", rng.pick(&[1u8, 7, 42])),
        // a variable assigned as a side effect of an expansion / of arithmetic
        40 => format!(": ${{y{j}:=d{k}}} $((z{j}={k}))"),
        _ => format!("ulimit -n {}", rng.pick(&[40u32, 50, 60])),
    }
}

fn gen_test(rng: &mut Rng, n: &mut u32, id: &mut u32, depth: u32) -> Test {
    *id += 1;
    let my = *id;
    let kind = *rng.pick(&[
        Kind::Paren,
        Kind::Paren,
        Kind::Cs,
        Kind::Cs,
        Kind::Pipe,
        Kind::Pipe,
        Kind::Async,
        Kind::Async,
        Kind::Async,
        Kind::Pipe3,
        Kind::Pipe3,
        Kind::CsTrap,
        Kind::BigWriters,
        Kind::CsSig,
        Kind::ExecEnv,
    ]);
    // (`$$` is the main shell: only there)
    let kind = if kind == Kind::CsSig && depth > 0 { Kind::Cs } else { kind };
    let muts = |rng: &mut Rng, n: &mut u32, max: u32| -> Vec<String> {
        (0..rng.below(max + 1)).map(|_| mutator(rng, n)).collect()
    };
    let pre = muts(rng, n, 4);
    let child = muts(rng, n, 5);
    let mut child2 = if matches!(kind, Kind::Pipe | Kind::Pipe3) { muts(rng, n, 4) } else { Vec::new() };
    // the second element's stdin is the pipe the positive control reads
    child2.retain(|m| m != "exec </work/e1" && m != "exec <&-");
    let nested = if !matches!(kind, Kind::CsTrap | Kind::BigWriters | Kind::ExecEnv) && depth < 2 && rng.below(3) == 0 {
        Some(Box::new(gen_test(rng, n, id, depth + 1)))
    } else {
        None
    };
    let in_function = rng.below(4) == 0;
    let mut pre = pre;

    if in_function {
        *n += 1;
        pre.insert(0, format!("typeset lv{}=local{}", *n, *n));
    }
    Test {
        id: my,
        kind,
        pre,
        child,
        child2,
        nested,
        in_function,
        wrap: *rng.pick(&[0u8, 0, 0, 0, 1, 2]),
        stops: false,
        big: if kind == Kind::BigWriters {
            (rng.range(300, 2600), rng.range(300, 2600), *rng.pick(&[64u32, 300, 512, 700, 4096]))
        } else {
            (0, 0, 0)
        },
    }
}

pub fn generate(rng: &mut Rng, tier: Tier) -> Case {
    let nt = rng.range(
        1,
        match tier {
            Tier::Quick => 3,
            Tier::Thorough => 4,
        },
    );
    let mut n = 0;
    let mut id = 0;
    let mut tests: Vec<Test> = (0..nt).map(|_| gen_test(rng, &mut n, &mut id, 0)).collect();
    let job_control = rng.below(4) == 0;
    if job_control {
        // traps on the job-control signals: the shell blocks SIGTTOU itself
        // while it takes the terminal back
        for t in &mut tests {
            if rng.bool() {
                n += 1;
                t.pre.push(format!("trap 'echo J{n}' {}", rng.pick(&["TTOU", "TTOU", "TSTP", "TTIN"])));
            }
        }
    }
    if job_control {
        for t in &mut tests {
            if t.kind == Kind::Paren && t.nested.is_none() && t.wrap == 0 && !t.in_function && rng.bool() {
                t.stops = true;
            }
        }
    }
    Case { tests, job_control, low_limit: false, interactive: false }
}

fn join(m: &[String]) -> String {
    m.iter().map(|s| format!("{s}; ")).collect()
}

fn render_test(t: &Test, out: &mut String) {
    if t.wrap != 0 {
        let mut body = String::new();
        let mut plain = t.clone();
        plain.wrap = 0;
        render_test(&plain, &mut body);
        if t.wrap == 1 {
            out.push_str(&format!("for q{} in 1; do\n{}done\n", t.id, body));
        } else {
            out.push_str(&format!("if\n{}then :; fi\n", body));
        }
        return;
    }
    if t.in_function {
        let mut body = String::new();
        let mut plain = t.clone();
        plain.in_function = false;
        render_test(&plain, &mut body);
        out.push_str(&format!("tf{}() {{\n{}}}\ntf{} fa{} fb{}\n", t.id, body, t.id, t.id, t.id));
        return;
    }
    let k = t.id;
    out.push_str(&join(&t.pre));
    if t.kind == Kind::ExecEnv {
        out.push_str(&format!("export ev{k}=parent{k}\n"));
    }
    if t.kind == Kind::CsSig {
        // (part of the test itself: without the trap the signal ends the shell)
        out.push_str(&format!("trap ': sg{k}' USR1\n"));
    }
    out.push_str(&format!("snap B{k}\n"));
    let mut inner = String::new();
    if let Some(n) = &t.nested {
        render_test(n, &mut inner);
    }
    // positive control: the child writes a file the parent reads afterwards
    let ctl_file = format!("/work/ctl{k}");
    match t.kind {
        Kind::Paren if t.stops => out.push_str(&format!(
            "( snap E{k}; {}selfstop; echo data{k} >{ctl_file}; snap X{k} )\nsnap C{k}\nfg >|/dev/null 2>&1\ncat {ctl_file}\n",
            join(&t.child),
        )),
        Kind::Paren => out.push_str(&format!(
            "( snap E{k}; {}{}echo data{k} >{ctl_file}; snap X{k} )\nsnap C{k}\ncat {ctl_file}\n",
            join(&t.child),
            inner
        )),
        Kind::Cs => out.push_str(&format!(
            "cs{k}=$( snap E{k}; {}{}echo data{k} >{ctl_file}; snap X{k}; echo out{k} )\nsnap C{k}\ncat {ctl_file}; echo \"$cs{k}\"\n",
            join(&t.child),
            inner
        )),
        Kind::CsSig => out.push_str(&format!(
            "cs{k}=$(kill -s USR1 $$)$( snap E{k}; {}{}echo data{k} >{ctl_file}; snap X{k}; echo out{k} )\nsnap C{k}\ncat {ctl_file}; echo \"$cs{k}\"\n",
            join(&t.child),
            inner
        )),
        Kind::ExecEnv => out.push_str(&format!(
            "( snap E{k}; {}ev{k}=child{k}; exec /bin/true ) 2>>/work/errlog; /bin/false 2>>/work/errlog\nlastenv ev{k} >|{ctl_file}\nsnap C{k}\ncat {ctl_file}\n",
            join(&t.child)
        )),
        Kind::Pipe => out.push_str(&format!(
            "{{ snap E{k}; {}{}echo data{k}; snap X{k}; }} | {{ snap F{k}; {}cat >{ctl_file}; snap Y{k}; }}\nsnap C{k}\ncat {ctl_file}\n",
            join(&t.child),
            inner,
            join(&t.child2)
        )),
        Kind::Async => out.push_str(&format!(
            "{{ snap E{k}; {}{}echo data{k} >{ctl_file}; snap X{k}; }} &\nsnap C{k}\necho mid{k}\nwait\nsnap D{k}\ncat {ctl_file}\n",
            join(&t.child),
            inner
        )),
        Kind::CsTrap => out.push_str(&format!(
            "trap >/work/tp{k}\ncs{k}=$(trap)\necho \"$cs{k}\" >/work/tc{k}\nsnap C{k}\necho data{k}\n"
        )),
        Kind::Pipe3 => out.push_str(&format!(
            "{{ snap E{k}; {}{}echo data{k}; snap X{k}; }} | {{ snap F{k}; {}cat; snap Y{k}; }} | {{ snap G{k}; cat >{ctl_file}; snap Z{k}; }}\nsnap C{k}\ncat {ctl_file}\n",
            join(&t.child),
            inner,
            join(&t.child2)
        )),
        Kind::BigWriters => out.push_str(&format!(
            "{{ {}snap P{k}; gen {} {k} {c} 6 & gen {} {k} {c} 7 & wait; snap Q{k}; }} | {{ nap 2; demux {k} {k} 200 >|{ctl_file}; }}\nsnap C{k}\ncat {ctl_file}\n",
            join(&t.child),
            t.big.0,
            t.big.1,
            c = t.big.2
        )),
    }
}

pub fn render(c: &Case) -> String {
    let mut s = String::new();
    if c.low_limit {
        s.push_str("ulimit -n 10\n");
        if c.job_control {
            // (job control is switched on only now, so the shell cannot keep a
            // descriptor for the terminal: it tries again for every foreground job)
            s.push_str("set -m\n");
        }
    }
    for t in &c.tests {
        render_test(t, &mut s);
    }
    s
}

fn expected_stdout_test(t: &Test, out: &mut String) {
    // nested tests run inside a subshell: their `cat`/`echo` output goes to
    // the subshell's stdout, which is the parent's for Paren/Async(no: file?)...
    // To stay simple the expected stdout is derived only for top level; nested
    // output is not compared (see `expected_stdout`).
    let k = t.id;
    match t.kind {
        Kind::Paren | Kind::Pipe | Kind::Pipe3 | Kind::CsTrap => out.push_str(&format!("data{k}\n")),
        Kind::Cs | Kind::CsSig => out.push_str(&format!("data{k}\nout{k}\n")),
        Kind::Async => out.push_str(&format!("mid{k}\ndata{k}\n")),
        Kind::BigWriters => out.push_str(&format!("A len={} bad=-1 B len={} bad=-1\n", t.big.0, t.big.1)),
        Kind::ExecEnv => out.push_str(&format!("ev{k}=parent{k}\n")),
    }
}

/// Expected stdout, or None when nested tests make the exact interleaving of
/// output streams irrelevant to this property.
pub fn expected_stdout(c: &Case) -> Option<String> {
    if c.tests.iter().any(|t| t.nested.is_some()) {
        return None;
    }
    let mut s = String::new();
    for t in &c.tests {
        expected_stdout_test(t, &mut s);
    }
    Some(s)
}

type SnapMap = BTreeMap<String, String>;

fn parse_snaps(obs: &Observed) -> BTreeMap<String, SnapMap> {
    let mut out = BTreeMap::new();
    for e in obs.history.iter().filter(|e| e.kind == "snap") {
        let mut lines = e.text.lines();
        let label = lines.next().unwrap_or("").to_string();
        let mut m = SnapMap::new();
        for l in lines {
            if let Some((k, v)) = l.split_once('=') {
                m.insert(k.to_string(), v.to_string());
            }
        }
        m.insert("@pid".into(), e.pid.to_string());
        out.insert(label, m);
    }
    out
}

/// The mode (O_NONBLOCK) of an open file description is compared only where
/// no other process can be in the middle of a read or write on it (keys
/// `fdnb:N`, see `Kind::BigWriters`).
fn diff(a: &SnapMap, b: &SnapMap, skip: &dyn Fn(&str) -> bool) -> Vec<String> {
    diff_with(a, b, &|k| k.starts_with("fdnb:") || skip(k))
}

fn diff_with(a: &SnapMap, b: &SnapMap, skip: &dyn Fn(&str) -> bool) -> Vec<String> {
    let mut d = Vec::new();
    for (k, v) in a {
        if k.starts_with('@') || skip(k) {
            continue;
        }
        match b.get(k) {
            Some(w) if w == v => {}
            Some(w) => d.push(format!("{k}: {v} -> {w}")),
            None => d.push(format!("{k}: {v} -> (absent)")),
        }
    }
    for (k, w) in b {
        if k.starts_with('@') || skip(k) {
            continue;
        }
        if !a.contains_key(k) {
            d.push(format!("{k}: (absent) -> {w}"));
        }
    }
    d
}

fn key_class(d: &str) -> &str {
    let k = d.split(':').next().unwrap_or("");
    match k {
        "var" | "pos" => "variables",
        "fn" => "functions",
        "alias" => "aliases",
        "opt" => "options",
        "trap" | "disp" | "mask" => "traps",
        "cwd" => "cwd",
        "umask" => "umask",
        "fd" | "fdnb" => "files",
        "nofile" => "limits",
        other => other,
    }
}

/// `tolerant`: a process was killed from outside (crash injection), so
/// snapshots may be missing; every snapshot that exists is still checked.
/// `lazy_tty`: the shell controls jobs and an earlier descriptor allocation
/// failed, so its own close-on-exec descriptor for the terminal (>= 10) may be
/// opened only now, by the parent, for this subshell.
fn check_test(t: &Test, snaps: &BTreeMap<String, SnapMap>, tolerant: bool, job_control: bool, lazy_tty: bool, interactive: bool) -> Option<Viol> {
    let own_tty = |d: Vec<String>| -> Vec<String> {
        if !lazy_tty {
            return d;
        }
        let mut seen = false;
        d.into_iter()
            .filter(|l| {
                let is = !seen
                    && l.strip_prefix("fd:").is_some_and(|r| {
                        let mut it = r.splitn(2, ": (absent) -> ");
                        let n: i32 = it.next().and_then(|n| n.parse().ok()).unwrap_or(-1);
                        n >= 10 && it.next().is_some_and(|v| v.ends_with(",1"))
                    });
                seen |= is;
                !is
            })
            .collect()
    };
    let k = t.id;
    let get = |l: &str| snaps.get(&format!("{l}{k}"));
    let (Some(b), Some(c)) = (get("B"), get("C")) else {
        if tolerant {
            return None;
        }
        return Some((
            "trace".into(),
            "trace".into(),
            format!("snapshots B{k}/C{k} missing: the script did not get that far"),
        ));
    };
    // --- parent unchanged
    let cs_var = format!("var:cs{k}");
    let leak_skip = |key: &str| -> bool {
        // (`$?` after the subshell is its exit status)
        key == "status"
            // (the terminal's foreground process group is the business of the
            // shell that controls jobs: judged for its own subshells only)
            || key == "ttyfg" && (!job_control || lazy_tty)
            || (key == "jobs" || key == "ownedjobs") && t.stops
            || (key == "jobs" || key == "ownedjobs" || key == "lastasync") && t.kind == Kind::Async
            || key == cs_var && matches!(t.kind, Kind::Cs | Kind::CsTrap | Kind::CsSig)
    };
    let mut parents = vec![("C", c)];
    if t.kind == Kind::Async {
        if let Some(d) = get("D") {
            parents.push(("D", d));
        } else if !tolerant {
            return Some(("trace".into(), "trace".into(), format!("snapshot D{k} missing")));
        }
    }
    // (the variable the substitution is assigned to may be exported: it is
    // left out of the environment as it is left out of the variables)
    let strip_cs = |m: &SnapMap| -> SnapMap {
        let mut m = m.clone();
        if let Some(e) = m.get("envp").cloned() {
            let prefix = format!("cs{k}=");
            let kept: Vec<&str> = e.split('\u{1}').filter(|v| !v.starts_with(&prefix)).collect();
            m.insert("envp".into(), kept.join("\u{1}"));
        }
        m
    };
    let b_cs = strip_cs(b);
    for (name, p) in parents {
        let p_cs = strip_cs(p);
        let (b, p) = if matches!(t.kind, Kind::Cs | Kind::CsTrap | Kind::CsSig) { (&b_cs, &p_cs) } else { (b, p) };
        let d = own_tty(diff(b, p, &leak_skip));
        if !d.is_empty() {
            return Some((
                "leak".into(),
                format!("leak:{}", key_class(&d[0])),
                format!(
                    "{:?} subshell {k}: the parent's state changed between B{k} and {name}{k}:\n  {}",
                    t.kind,
                    d.join("\n  ")
                ),
            ));
        }
    }
    // --- child on entry sees a copy, with the documented differences
    // (label, standard input is a pipe, standard output is a pipe)
    let entries: Vec<(&str, bool, bool)> = match t.kind {
        Kind::Pipe => vec![("E", false, true), ("F", true, false)],
        Kind::Pipe3 => vec![("E", false, true), ("F", true, true), ("G", true, false)],
        Kind::Cs | Kind::CsSig => vec![("E", false, true)],
        Kind::CsTrap | Kind::BigWriters => vec![],
        _ => vec![("E", false, false)],
    };
    if t.kind == Kind::BigWriters {
        match (get("P"), get("Q")) {
            (Some(p), Some(q)) => {
                // (the element has waited for both writers, nobody else shares
                // the pipe's writing end: the mode of every open file
                // description is compared as well)
                // (a writer killed from outside cannot put the mode back; the
                // terminal is the business of the shell that controls jobs)
                let d = diff_with(p, q, &|key| {
                    matches!(key, "status" | "jobs" | "ownedjobs" | "lastasync" | "ttyfg") || tolerant && key.starts_with("fdnb:")
                });
                if !d.is_empty() {
                    return Some((
                        "leak".into(),
                        format!("leak:{}", key_class(&d[0])),
                        format!(
                            "pipeline element {k} started two asynchronous writers on its standard output and waited for them: its state changed between P{k} and Q{k}:\n  {}",
                            d.join("\n  ")
                        ),
                    ));
                }
            }
            _ if tolerant => {}
            _ => return Some(("trace".into(), "trace".into(), format!("snapshots P{k}/Q{k} missing"))),
        }
    }
    for (label, pipe_in, pipe_out) in entries {
        let Some(e) = get(label) else {
            if tolerant {
                continue;
            }
            return Some(("trace".into(), "trace".into(), format!("snapshot {label}{k} missing")));
        };
        // expected entry state derived from B
        let mut want = b.clone();
        // traps with command actions are reset to default
        let keys: Vec<String> = want.keys().cloned().collect();
        for key in keys {
            if key.starts_with("trap:") && want[&key].starts_with("C:") {
                want.remove(&key);
                // the disposition follows for signal conditions
                if let Some(num) = key.strip_prefix("trap:S").and_then(|n| n.parse::<u32>().ok()) {
                    want.remove(&format!("disp:{num:03}"));
                }
            }
        }
        if interactive {
            // the interactive shell's own handling of SIGINT (2), SIGQUIT (3)
            // and SIGTERM (15) is not inherited: what the user's traps say is
            for n in [2u32, 3, 15] {
                let d = format!("disp:{n:03}");
                want.remove(&d);
                if want.get(&format!("trap:S{n:03}")).is_some_and(|a| a == "I") {
                    want.insert(d, "Ignore".into());
                }
            }
            // (SIGTSTP, SIGTTIN, SIGTTOU - 120..122 - are ignored by an interactive
            // job-control shell; whether a subshell keeps that depends on whether
            // it is a job of its own: the rule is C11's, not judged here)

        }
        let stoppers_open = interactive;
        let skip = |key: &str| -> bool {
            // (a foreground job of a job-control shell has the terminal)
            if key == "stack" || key == "jobs" || key == "ownedjobs" || key == "ttyfg" {
                return true;
            }
            if stoppers_open && matches!(key, "disp:120" | "disp:121" | "disp:122" | "trap:S120" | "trap:S121" | "trap:S122") {
                return true;
            }
            match t.kind {
                // (with job control an asynchronous list is an ordinary job:
                // stdin untouched, SIGINT and SIGQUIT not ignored)
                Kind::Async if job_control => false,
                Kind::Async => {
                    // stdin is /dev/null, SIGINT and SIGQUIT are ignored
                    key == "fd:0"
                        || key == "disp:002"
                        || key == "disp:003"
                        || key == "trap:S002"
                        || key == "trap:S003"
                }
                Kind::Cs | Kind::CsSig | Kind::Pipe | Kind::Pipe3 | Kind::CsTrap | Kind::BigWriters => (pipe_in && key == "fd:0") || (pipe_out && key == "fd:1"),
                // (the test's own `2>>errlog` on the subshell: descriptor 2 and
                // the saved copy of it at 10 or above)
                Kind::ExecEnv => key.strip_prefix("fd:").and_then(|n| n.parse::<i32>().ok()).is_some_and(|n| n == 2 || n >= 10),
                Kind::Paren => false,
            }
        };
        // blocked signals: a command trap implies the signal is blocked in the
        // parent (caught signals are blocked outside select); in the child the
        // disposition is default and the mask entry goes away
        let mask_skip = |key: &str| key == "mask";
        let d = own_tty(diff(&want, e, &|key| skip(key) || mask_skip(key)));
        if !d.is_empty() {
            return Some((
                "entry".into(),
                format!("entry:{}", key_class(&d[0])),
                format!(
                    "{:?} subshell {k}: on entry ({label}{k}) the subshell does not see a copy of the parent's state (expected from B{k} -> observed):\n  {}",
                    t.kind,
                    d.join("\n  ")
                ),
            ));
        }
        // the jobs of the parent are not jobs of the subshell
        if e.get("ownedjobs").is_some_and(|n| n != "0") {
            return Some((
                "entry".into(),
                "entry:jobs".into(),
                format!(
                    "{:?} subshell {k}: on entry ({label}{k}) the subshell still owns {} of the parent's jobs (it may not wait for any of them)",
                    t.kind,
                    e["ownedjobs"]
                ),
            ));
        }
        if t.kind == Kind::Async && !job_control {
            for (sig, name) in [("disp:002", "SIGINT"), ("disp:003", "SIGQUIT")] {
                if e.get(sig).map(String::as_str) != Some("Ignore") {
                    return Some((
                        "entry".into(),
                        "entry:async-int-quit".into(),
                        format!("asynchronous list {k} (no job control): {name} is {:?}, should be ignored", e.get(sig)),
                    ));
                }
            }
        }
        // the child's context stack is the parent's plus one subshell frame
        // (the innermost frame of both snapshots is the probe itself)
        if let (Some(bs), Some(es)) = (b.get("stack"), e.get("stack")) {
            // (a pipeline element is two subshell levels below the shell)
            let pf: Vec<&str> = bs.split(',').filter(|f| !f.is_empty()).collect();
            let cf: Vec<&str> = es.split(',').filter(|f| !f.is_empty()).collect();
            let outer = pf.len().saturating_sub(1);
            let extra = cf.len().saturating_sub(pf.len());
            let ok = cf.len() > pf.len()
                && extra <= 2
                && cf[..outer] == pf[..outer]
                && cf[outer..outer + extra].iter().all(|f| *f == "Subshell")
                && cf[outer + extra..] == pf[outer..];
            let want = format!("{}{}Subshell,{}", pf[..outer].join(","), if outer > 0 { "," } else { "" }, pf[outer..].join(","));
            if !ok {
                return Some((
                    "entry".into(),
                    "entry:stack".into(),
                    format!(
                        "{:?} subshell {k}: on entry ({label}{k}) the context stack is [{es}], expected the parent's [{bs}] plus a subshell frame: [{want}]",
                        t.kind
                    ),
                ));
            }
        }
        // the child must really be another process
        if e.get("@pid") == b.get("@pid") {
            return Some((
                "entry".into(),
                "entry:same-process".into(),
                format!("subshell {k} runs in the parent's process"),
            ));
        }
    }
    None
}

fn check_run(c: &Case, obs: &Observed) -> Option<Viol> {
    check_run_opt(c, obs, false)
}

fn check_run_opt(c: &Case, obs: &Observed, tolerant: bool) -> Option<Viol> {
    check_run_mode(c, obs, tolerant, false)
}

/// `main_may_exit`: the fault (a failed descriptor allocation) can make the
/// main shell itself give up early (a redirection error on a special built-in),
/// so even its own snapshots may be missing.
fn check_run_mode(c: &Case, obs: &Observed, tolerant: bool, main_may_exit: bool) -> Option<Viol> {
    if let Some(v) = check_liveness(obs) {
        return Some(v);
    }
    let snaps = parse_snaps(obs);
    // in every snapshot (parent or child): a signal is blocked exactly while
    // it is caught (SIGCHLD is excluded from the snapshots)
    for (label, m) in &snaps {
        let caught: std::collections::BTreeSet<i32> = m
            .iter()
            .filter(|(k, v)| k.starts_with("disp:") && v.as_str() == "Catch")
            .filter_map(|(k, _)| k[5..].parse().ok())
            .collect();
        let blocked: std::collections::BTreeSet<i32> = m
            .get("mask")
            .map(|v| {
                v.trim_matches(|c| c == '[' || c == ']')
                    .split(',')
                    .filter_map(|x| x.trim().parse().ok())
                    .collect()
            })
            .unwrap_or_default();
        if caught != blocked {
            return Some((
                "mask".into(),
                "mask".into(),
                format!(
                    "snapshot {label} (pid {}): blocked signals {blocked:?} but caught signals {caught:?} - a signal must be blocked exactly while it has a command trap",
                    m.get("@pid").cloned().unwrap_or_default()
                ),
            ));
        }
    }
    fn walk<'a>(t: &'a Test, out: &mut Vec<&'a Test>) {
        out.push(t);
        if let Some(n) = &t.nested {
            walk(n, out);
        }
    }
    let mut all = Vec::new();
    for t in &c.tests {
        walk(t, &mut all);
    }
    for t in all {
        // (a subshell of a job-control shell does not control jobs itself)
        let jc = c.job_control && c.tests.iter().any(|top| top.id == t.id);
        let top = c.tests.iter().any(|top| top.id == t.id);
        if let Some(v) = check_test(t, &snaps, tolerant, jc, main_may_exit && c.job_control, c.interactive && top) {
            return Some(v);
        }
        // (only at the top level: what `trap` lists in a subshell of a subshell
        // is not specified)
        if t.kind == Kind::CsTrap && !tolerant && c.tests.iter().any(|top| top.id == t.id) {
            let text = |p: String| -> Option<String> {
                obs.files
                    .get(&p)
                    .map(|(_, _, c)| String::from_utf8_lossy(c).trim_end_matches('\n').to_string())
            };
            let (tp, tc) = (text(format!("/work/tp{}", t.id)), text(format!("/work/tc{}", t.id)));
            // (a command substitution of an interactive job-control shell goes on
            // ignoring SIGTSTP, SIGTTIN and SIGTTOU, which its listing shows)
            let tc = tc.map(|t| {
                if c.interactive {
                    t.lines()
                        .filter(|l| !matches!(*l, "trap -- '' TSTP" | "trap -- '' TTIN" | "trap -- '' TTOU"))
                        .collect::<Vec<_>>()
                        .join("\n")
                } else {
                    t
                }
            });
            if let (Some(tp), Some(tc)) = (&tp, &tc)
                && tp != tc
            {
                return Some((
                    "entry".into(),
                    "entry:trap-listing".into(),
                    format!("test {}: `$(trap)` prints {tc:?}, `trap` in the parent prints {tp:?}: the listing inside a command substitution shows the parent's traps", t.id),
                ));
            }
        }
    }
    if tolerant && main_may_exit {
        return None;
    }
    if tolerant {
        // the main shell is never killed: its own snapshots exist even if
        // every child was
        for t in &c.tests {
            if t.in_function {
                continue;
            }
            for l in ["B", "C"] {
                if !snaps.contains_key(&format!("{l}{}", t.id)) {
                    return Some(("trace".into(), "trace".into(), format!("snapshot {l}{} of the main shell is missing", t.id)));
                }
            }
        }
        return None;
    }
    // positive control: data written by the children did arrive
    if let Some(exp) = expected_stdout(c)
        && obs.stdout != exp
    {
        return Some((
            "control".into(),
            "control".into(),
            format!(
                "data written by the subshells to shared files/pipes: expected stdout {exp:?}, observed {:?} (stderr {:?})",
                obs.stdout, obs.stderr
            ),
        ));
    }
    None
}

fn spec_of(c: &Case) -> ScriptSpec {
    ScriptSpec {
        script: render(c),
        dash_c: true,
        options: {
            let mut o = Vec::new();
            if c.job_control && !c.low_limit {
                o.push("-m".to_string());
            }
            if c.interactive {
                o.push("-i".to_string());
            }
            o
        },
        files: vec![
            ("/work/e1".into(), b"e1-line1\ne1-line2\n".to_vec(), 0o644),
            ("/work/sub1/deep/keep".into(), b"".to_vec(), 0o644),
        ],
        ..Default::default()
    }
}

fn draw_config(rng: &mut Rng, k: u32) -> SimConfig {
    let strategy = if k == 0 {
        Strategy::Fifo
    } else {
        match rng.below(10) {
            0..=4 => Strategy::Random,
            5..=6 => Strategy::Pct(rng.range(1, 3)),
            7 => Strategy::RoundRobin,
            _ => Strategy::FifoDev(*rng.pick(&[50u32, 200])),
        }
    };
    SimConfig {
        strategy,
        preempt_permille: if k == 0 { 0 } else { *rng.pick(&[0u32, 50, 200, 500]) },
        ..Default::default()
    }
}

fn run_crash(c: &Case, cfg: &SimConfig, decider: Decider) -> Observed {
    crate::shellrun::run_script_with(&spec_of(c), cfg, decider, |_| {}, crate::shellrun::crash_env(cfg))
}

fn run_one(c: &Case, cfg: &SimConfig, decider: Decider) -> (Observed, Option<Viol>) {
    let obs = run_script(&spec_of(c), cfg, decider);
    let v = check_run(c, &obs);
    (obs, v)
}

fn failure(c: &Case, cfg: &SimConfig, obs: &Observed, v: Viol) -> Failure {
    Failure {
        class: v.0,
        key: v.1,
        detail: format!("{}\n--- script ---\n{}", v.2, render(c)),
        case: serde_json::to_value(c).unwrap(),
        cfg: cfg.clone(),
        decisions: obs.decisions.clone(),
        history_tail: history_tail(&obs.history, 12)
            .into_iter()
            .map(|mut e| {
                if e.kind == "snap" {
                    e.text = e.text.lines().next().unwrap_or("").to_string();
                }
                e
            })
            .collect(),
    }
}

pub struct C08;

impl Prop for C08 {
    fn id(&self) -> &'static str {
        "C08"
    }
    fn level(&self) -> &'static str {
        "exploration"
    }
    fn rule(&self) -> String {
        "Seeded programs of 1-4 subshell tests (kinds: ( ), $( ), both elements of a pipeline, asynchronous list; nested up to depth 3). Around every subshell the `snap` probe serialises the complete shell state (`$?`, all variables with values and attributes, positional parameters, functions by printed body, aliases, all options, trap table, cwd, umask, NOFILE limit, descriptor table as fd -> open-file-description serial + flags, all signal dispositions, signal mask). Parent mutators before and child mutators inside are drawn from 34 state-changing commands (assignment, unset, export, readonly, function definition/removal, alias/unalias, set -o/+o, set --/shift, cd, umask, trap default/ignore/command/EXIT, exec N>file / N>&- / N<file / <file, ulimit -n). Oracles: parent snapshot before == after (for & also while the child runs and after wait), child-on-entry snapshot == parent's with exactly the documented differences (context stack: the parent's plus the subshell frames; a third of the tests run inside a loop body or an `if` condition), data written by children to shared files/pipes arrives (positive control). Schedules: FIFO baseline + seeded random/PCT/round-robin/FIFO-dev with preemption so the child runs between any two kernel calls of the parent. Distinct non-trivial = distinct (script hash, schedule hash, preemption count) with >= 2 processes. Added configurations: three-command pipelines; mutators that close descriptors (also 0), assign arrays and start asynchronous jobs; crash injection (children killed with SIGKILL from outside at seeded steps) with the leak oracle kept and every snapshot that was still taken checked. Further fault configurations, same tolerant oracle: one seeded descriptor allocation of the parent or a child fails with EMFILE; the whole script runs under `ulimit -n 10` (no descriptor >= 10 can be allocated: every save of a redirected descriptor and every attempt of a job-control shell to keep the terminal open fails, again and again), job control being switched on only afterwards. Every program also runs once in an interactive shell (`-i`): SIGINT / SIGQUIT / SIGTERM are handled by the shell itself there, and a subshell must have them as the user's traps say. Kind BigWriters: a pipeline element starts two asynchronous writers on its standard output (a pipe read slowly, more data than it holds) and waits for them; its snapshots before and after agree, the O_NONBLOCK mode of every open file description included. Kind CsSig: `v=$(kill -s USR1 $$)$( ... )` with a command trap for USR1 - the second substitution is forked while the signal is pending in the parent; the child does not inherit it.".into()
    }
    fn assumptions(&self) -> Vec<String> {
        vec![
            "decided relative to the repository's simulated kernel; a virtual fork is a clone of in-memory structures".into(),
            "SIGCHLD disposition/mask are excluded from the snapshots: the shell installs its own handler the first time it waits".into(),
            "sampling of mutator sequences and schedules, not enumeration".into(),
        ]
    }
    fn components(&self) -> Value {
        json!({
            "real": ["Env::run_in_child_process / ForkEnvState", "subshell::Config::start", "TrapSet::enter_subshell", "Process::fork_from", "subshell / command substitution / pipeline / async-list execution", "all mutating built-ins (set, cd, umask, trap, exec, ulimit, alias, export, readonly, unset)"],
            "stub": ["snap probe (reads Env and the simulated Process)", "seeded scheduler"]
        })
    }
    fn cases(&self, tier: Tier) -> u64 {
        match tier {
            Tier::Quick => 6000,
            Tier::Thorough => 40_000,
        }
    }

    fn run_case(&self, seed: u64, index: u64, tier: Tier, stats: &mut Stats) -> Option<Failure> {
        let mut rng = Rng::stream(seed, 8, index);
        let case = generate(&mut rng, tier);
        let script = render(&case);
        let case_hash = hash_str(&script);
        let schedules = match tier {
            Tier::Quick => 8,
            Tier::Thorough => 16,
        };
        let mut base_allocs = 0u32;
        for k in 0..schedules {
            let cfg = draw_config(&mut rng, k);
            let (obs, v) = run_one(&case, &cfg, Decider::record(Rng::stream(seed, 800 + k as u64, index)));
            if k == 0 {
                base_allocs = obs.alloc_count as u32;
            }
            stats.note_run(case_hash, &obs.outcome, obs.faults_fired);
            stats.add_counters(&obs.counters);
            stats.digest(index, obs_digest(&obs));
            if k == 0 && stats.samples.len() < 2 && index % 9 == 0 {
                let snaps = parse_snaps(&obs);
                stats.samples.push(json!({
                    "script": script,
                    "snapshots_taken": snaps.keys().collect::<Vec<_>>(),
                    "example_snapshot_B1": snaps.get("B1"),
                }));
            }
            if let Some(v) = v {
                stats.count("violating_runs", 1);
                return Some(failure(&case, &cfg, &obs, v));
            }
        }
        // crash injection: children are killed (SIGKILL from outside) at seeded
        // instants; whatever a child had done by then must not show in the
        // parent, and every snapshot that was taken still obeys the rules
        // (under faults no subshell stops itself: whether `fg` can bring it back is
        // another matter)
        let calm = {
            let mut c = case.clone();
            for t in &mut c.tests {
                t.stops = false;
            }
            c
        };
        let crash_runs = match tier {
            Tier::Quick => 1,
            Tier::Thorough => 3,
        };
        for j in 0..crash_runs {
            let mut cfg = draw_config(&mut rng, 1 + j);
            cfg.crash_permille = *rng.pick(&[20u32, 60, 150]);
            cfg.crash_max = rng.range(1, 3);
            let obs = run_crash(&calm, &cfg, Decider::record(Rng::stream(seed, 890 + j as u64, index)));
            stats.note_run(case_hash ^ 0xC4A5, &obs.outcome, obs.faults_fired);
            stats.add_counters(&obs.counters);
            stats.digest(index, obs_digest(&obs));
            if let Some(mut v) = check_run_opt(&calm, &obs, true) {
                stats.count("violating_runs", 1);
                v.1 = format!("crash:{}", v.1);
                return Some(failure(&calm, &cfg, &obs, v));
            }
        }
        // descriptor exhaustion: one seeded descriptor allocation (of the parent
        // or of a child) fails with EMFILE. The subshell may then not start or
        // not get far, but the parent's state - its descriptor table above all -
        // is still what it was, and every snapshot that was taken obeys the rules
        let emfile_runs = match tier {
            Tier::Quick => 2,
            Tier::Thorough => 5,
        };
        if base_allocs > 0 {
            for j in 0..emfile_runs {
                let mut cfg = draw_config(&mut rng, j);
                cfg.fail_alloc_at = Some(1 + rng.below(base_allocs));
                let (obs, _) = run_one(&calm, &cfg, Decider::record(Rng::stream(seed, 870 + j as u64, index)));
                stats.note_run(case_hash ^ 0xE3F1, &obs.outcome, obs.faults_fired);
                stats.add_counters(&obs.counters);
                stats.digest(index, obs_digest(&obs));
                if let Some(mut v) = check_run_mode(&calm, &obs, true, true) {
                    stats.count("violating_runs", 1);
                    v.1 = format!("emfile:{}", v.1);
                    return Some(failure(&calm, &cfg, &obs, v));
                }
            }
        }
        // the same program in an interactive shell
        {
            let mut ia = case.clone();
            ia.interactive = true;
            // (an interactive shell controls jobs unless told otherwise)
            ia.job_control = true;
            let cfg = draw_config(&mut rng, 1);
            let (obs, v) = run_one(&ia, &cfg, Decider::record(Rng::stream(seed, 850, index)));
            stats.note_run(case_hash ^ 0x1AC7, &obs.outcome, obs.faults_fired);
            stats.add_counters(&obs.counters);
            stats.digest(index, obs_digest(&obs));
            stats.count("runs_in_an_interactive_shell", 1);
            if let Some(mut v) = v {
                stats.count("violating_runs", 1);
                v.1 = format!("interactive:{}", v.1);
                return Some(failure(&ia, &cfg, &obs, v));
            }
        }
        // a descriptor limit of 10: every allocation of an internal descriptor fails
        {
            let mut low = calm.clone();
            low.low_limit = true;
            let cfg = draw_config(&mut rng, 1);
            let (obs, _) = run_one(&low, &cfg, Decider::record(Rng::stream(seed, 860, index)));
            stats.note_run(case_hash ^ 0x10F1, &obs.outcome, obs.faults_fired);
            stats.add_counters(&obs.counters);
            stats.digest(index, obs_digest(&obs));
            stats.count("runs_with_descriptor_limit_10", 1);
            if let Some(mut v) = check_run_mode(&low, &obs, true, true) {
                stats.count("violating_runs", 1);
                v.1 = format!("limit10:{}", v.1);
                return Some(failure(&low, &cfg, &obs, v));
            }
        }
        None
    }

    fn rerun(&self, case: &Value, cfg: &SimConfig, decisions: &[Decision]) -> Option<Failure> {
        let c: Case = serde_json::from_value(case.clone()).ok()?;
        if c.low_limit {
            let (obs, _) = run_one(&c, cfg, Decider::replay(decisions));
            return check_run_mode(&c, &obs, true, true).map(|mut v| {
                v.1 = format!("limit10:{}", v.1);
                failure(&c, cfg, &obs, v)
            });
        }
        if cfg.fail_alloc_at.is_some() {
            let (obs, _) = run_one(&c, cfg, Decider::replay(decisions));
            return check_run_mode(&c, &obs, true, true).map(|mut v| {
                v.1 = format!("emfile:{}", v.1);
                failure(&c, cfg, &obs, v)
            });
        }
        if cfg.crash_permille > 0 {
            let obs = run_crash(&c, cfg, Decider::replay(decisions));
            return check_run_opt(&c, &obs, true).map(|mut v| {
                v.1 = format!("crash:{}", v.1);
                failure(&c, cfg, &obs, v)
            });
        }
        let (obs, v) = run_one(&c, cfg, Decider::replay(decisions));
        v.map(|v| failure(&c, cfg, &obs, v))
    }

    fn shrink(&self, case: &Value) -> Vec<Value> {
        let Ok(c) = serde_json::from_value::<Case>(case.clone()) else {
            return Vec::new();
        };
        let mut out = Vec::new();
        fn variants(t: &Test) -> Vec<Test> {
            let mut v = Vec::new();
            for i in 0..t.pre.len() {
                let mut n = t.clone();
                n.pre.remove(i);
                v.push(n);
            }
            for i in 0..t.child.len() {
                let mut n = t.clone();
                n.child.remove(i);
                v.push(n);
            }
            for i in 0..t.child2.len() {
                let mut n = t.clone();
                n.child2.remove(i);
                v.push(n);
            }
            if let Some(nested) = &t.nested {
                let mut n = t.clone();
                n.nested = None;
                v.push(n);
                for nv in variants(nested) {
                    let mut n = t.clone();
                    n.nested = Some(Box::new(nv));
                    v.push(n);
                }
            }
            v
        }
        for i in 0..c.tests.len() {
            if c.tests.len() > 1 {
                let mut n = c.clone();
                n.tests.remove(i);
                out.push(serde_json::to_value(n).unwrap());
            }
            for tv in variants(&c.tests[i]) {
                let mut n = c.clone();
                n.tests[i] = tv;
                out.push(serde_json::to_value(n).unwrap());
            }
        }
        out
    }
}
