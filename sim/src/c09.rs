//! C09 - redirections apply in order, last one command, leave no descriptor
//! behind - with every fd-allocation failure position enumerated per program.

use crate::harness::{Failure, Prop, Stats, Tier, hash_str};
use crate::rng::{Decider, Decision, Rng};
use crate::shellrun::{Observed, ScriptSpec, Viol, check_liveness, history_tail, obs_digest, run_script_with};
use crate::sim::{SimConfig, Strategy};
use serde::{Deserialize, Serialize};
use serde_json::{Value, json};
use std::collections::{BTreeMap, BTreeSet};
use yash_env::system::resource::{INFINITY, LimitPair, Resource, SetRlimit as _};

#[derive(Clone, Copy, Debug, Serialize, Deserialize, PartialEq, Eq)]
pub enum Op {
    FileIn,
    FileOut,
    Clobber,
    Append,
    InOut,
    DupIn,
    DupOut,
    Here,
}

#[derive(Clone, Debug, Serialize, Deserialize, PartialEq)]
pub struct Redir {
    pub fd: Option<i32>,
    pub op: Op,
    /// path, source fd ("-" closes), or here-document body (lines)
    pub operand: String,
}

#[derive(Clone, Copy, Debug, Serialize, Deserialize, PartialEq, Eq)]
pub enum Kind {
    Builtin,
    Func,
    Brace,
    IfC,
    ForC,
    Subshell,
    Eval,
    Command,
    NotFound,
    Empty,
    Exec,
    Colon,
    /// `command . /work/libK.sh` - the shell opens the script for its own use
    Dot,
    /// `case x in x) io ...;; esac REDIRS`
    CaseC,
    /// `while rc 0; do io ...; break; done REDIRS`
    WhileC,
    /// function whose definition carries the redirections: `g() { io ...; } REDIRS; g`
    FuncDefRedir,
    /// the command is the last stage of a pipeline: `rc 0 | io ... REDIRS` (runs in a child)
    PipeLast,
    /// inside a command substitution: `x=$(io ... REDIRS)` (runs in a child)
    CmdSubst,
    /// first stage of a pipeline: `io ... REDIRS | relay 99` (runs in a child; what
    /// it writes to descriptor 1 reaches the shell's stdout through the pipe)
    PipeFirst,
    /// a built-in / a function with an assignment prefix whose value is a
    /// command substitution: `aK=$(io t:pK) io ... REDIRS`. The redirections are
    /// performed before the assignment is expanded, so the substitution sees
    /// the redirected descriptors (except 1, its own pipe)
    BuiltinAssign,
    FuncAssign,
    /// a command that is not found, with an assignment prefix whose value is a
    /// command substitution: `aK=$(io t:pK) nosuch_cmd REDIRS` - here too the
    /// redirections are performed first
    NotFoundAssign,
    /// `( trap 'io ...' EXIT; exec nosuch_cmd REDIRS )`: the redirections of an
    /// `exec` persist also when it has a command operand, which cannot be
    /// executed here: the subshell leaves with them in effect, as its EXIT
    /// trap sees; the parent is not affected
    ExecCmd,
    /// `( trap 'io ...' EXIT; exit 3 REDIRS )`: the redirections of the `exit`
    /// built-in last as long as that command, like any other's: the EXIT trap
    /// runs with the descriptors the subshell had before
    ExitCmd,
}

#[derive(Clone, Debug, Serialize, Deserialize, PartialEq)]
pub enum IoOp {
    W(i32, String),
    R(i32),
}

#[derive(Clone, Debug, Serialize, Deserialize, PartialEq)]
pub enum Item {
    Cmd {
        kind: Kind,
        ops: Vec<IoOp>,
        redirs: Vec<Redir>,
    },
    NoClobber(bool),
}

#[derive(Clone, Debug, Serialize, Deserialize)]
pub struct Case {
    pub items: Vec<Item>,
    pub as_file: bool,
    /// `sh -i -c ...`: a redirection error on a special built-in does not end
    /// an interactive shell, so failing redirections on `exec`, `eval` and `:`
    /// occur at any position; the shell's descriptor for the terminal sits at 10
    #[serde(default)]
    pub interactive: bool,
    /// (interactive only) `+m`: without job control the shell itself creates
    /// the pipes of a pipeline and waits for every command of it
    #[serde(default)]
    pub no_job_control: bool,
}

const EXISTING: [&str; 2] = ["e1", "e2"];
const E1: &[u8] = b"e1-line1\ne1-line2\n";
const E2: &[u8] = b"e2-line1\n";

fn gen_redir(rng: &mut Rng, word: &mut u32, as_file: bool) -> Redir {
    let op = *rng.pick(&[
        Op::FileIn,
        Op::FileIn,
        Op::FileOut,
        Op::FileOut,
        Op::Clobber,
        Op::Append,
        Op::InOut,
        Op::DupIn,
        Op::DupOut,
        Op::DupOut,
        Op::Here,
    ]);
    let fd = match rng.below(10) {
        0..=3 => None,
        4 => Some(0),
        5 => Some(1),
        6 => Some(2),
        7 => Some(rng.range(3, 5) as i32),
        8 => Some(rng.range(6, 9) as i32),
        _ => {
            if as_file && rng.below(3) == 0 {
                Some(10)
            } else {
                Some(3)
            }
        }
    };
    let path = |rng: &mut Rng, input: bool| -> String {
        match rng.below(10) {
            0..=3 => rng.pick(&EXISTING).to_string(),
            4..=8 => format!("n{}", rng.range(1, 3)),
            // (the simulated kernel creates missing parent directories on
            // O_CREAT, so a missing directory is only used for input)
            _ => {
                if input {
                    "nodir/x".to_string()
                } else {
                    "n3".to_string()
                }
            }
        }
    };
    let operand = match op {
        Op::FileIn => path(rng, true),
        Op::FileOut | Op::Clobber | Op::Append | Op::InOut => path(rng, false),
        Op::DupIn | Op::DupOut => match rng.below(12) {
            0 | 1 => "-".to_string(),
            2 => "0".into(),
            3 | 4 => "1".into(),
            5 => "2".into(),
            6 | 7 => rng.range(3, 5).to_string(),
            8 => rng.range(6, 9).to_string(),
            9 => "10".into(),
            _ => "3".into(),
        },
        Op::Here => {
            let n = rng.range(1, 2);
            (0..n)
                .map(|_| {
                    *word += 1;
                    format!("h{}\n", *word)
                })
                .collect()
        }
    };
    Redir { fd, op, operand }
}

pub fn generate(rng: &mut Rng, tier: Tier) -> Case {
    let as_file = rng.bool();
    let interactive = !as_file && rng.below(3) == 0;
    // (`-i +m`: no job control, the shell does not open the terminal:
    // descriptor 10 is an ordinary one)
    let no_job_control = interactive && rng.bool();
    let own10 = as_file || interactive && !no_job_control;
    let n = rng.range(
        2,
        match tier {
            Tier::Quick => 6,
            Tier::Thorough => 9,
        },
    );
    let mut word = 0u32;
    let mut items = Vec::new();
    for i in 0..n {
        if rng.below(10) == 0 {
            items.push(Item::NoClobber(rng.bool()));
            continue;
        }
        let last = i + 1 == n;
        let kind = match rng.below(if last { 24 } else { 21 }) {
            0..=1 => Kind::Builtin,
            2 => *rng.pick(&[
                Kind::CaseC,
                Kind::WhileC,
                Kind::FuncDefRedir,
                Kind::PipeLast,
                Kind::CmdSubst,
                Kind::PipeFirst,
                Kind::BuiltinAssign,
                Kind::FuncAssign,
                Kind::FuncAssign,
                Kind::ExecCmd,
                Kind::ExecCmd,
                Kind::ExitCmd,
                Kind::NotFoundAssign,
                Kind::NotFoundAssign,
            ]),
            3..=4 => Kind::Dot,
            5..=6 => Kind::Func,
            7..=8 => Kind::Brace,
            9 => Kind::IfC,
            10 => Kind::ForC,
            11..=12 => Kind::Subshell,
            13 => Kind::Command,
            14 => Kind::NotFound,
            15..=16 => Kind::Empty,
            17..=20 => Kind::Exec,
            21 => Kind::Eval,
            22 => Kind::Colon,
            _ => Kind::Exec,
        };
        let nr = match kind {
            Kind::Empty | Kind::Exec => rng.range(1, 3),
            _ => rng.range(0, 4),
        };
        let mut redirs: Vec<Redir> = (0..nr).map(|_| gen_redir(rng, &mut word, own10)).collect();
        if matches!(kind, Kind::Exec | Kind::Eval | Kind::Colon) && !last && !interactive || matches!(kind, Kind::ExecCmd | Kind::ExitCmd) {
            // a failing redirection on a special built-in makes the shell exit;
            // keep those for the final command and use benign operands here
            for r in &mut redirs {
                match r.op {
                    Op::FileIn => r.operand = rng.pick(&EXISTING).to_string(),
                    Op::FileOut | Op::Clobber | Op::Append | Op::InOut => {
                        if r.operand.contains("nodir") {
                            r.operand = "n1".into();
                        }
                        if r.op == Op::FileOut {
                            r.op = Op::Clobber;
                        }
                    }
                    Op::DupIn | Op::DupOut => r.operand = "-".into(),
                    Op::Here => {}
                }
                if r.fd == Some(10) {
                    r.fd = Some(4);
                }
            }
        }
        if kind == Kind::CmdSubst {
            // (a here-document inside $( ) would need its body inside the parentheses)
            for r in &mut redirs {
                if r.op == Op::Here {
                    r.op = Op::FileIn;
                    r.operand = "e1".into();
                }
            }
        }
        let mut ops = Vec::new();
        if !matches!(kind, Kind::NotFound | Kind::NotFoundAssign | Kind::Empty | Kind::Exec | Kind::Colon) {
            for _ in 0..rng.below(4) {
                if rng.below(3) == 0 {
                    ops.push(IoOp::R(*rng.pick(&[0i32, 0, 3, 4, 5])));
                } else {
                    word += 1;
                    ops.push(IoOp::W(*rng.pick(&[1i32, 1, 1, 2, 3, 4, 5]), format!("t{word}")));
                }
            }
        }
        // now and then every descriptor below 10 is open when the shell opens
        // a script for its own use: the descriptor it gets is already >= 10
        if kind == Kind::Dot && !last && rng.below(4) == 0 {
            items.push(Item::Cmd {
                kind: Kind::Exec,
                ops: Vec::new(),
                redirs: (3..=9)
                    .map(|fd| Redir {
                        fd: Some(fd),
                        op: Op::FileIn,
                        operand: "e1".into(),
                    })
                    .collect(),
            });
        }
        items.push(Item::Cmd { kind, ops, redirs });
    }
    Case { items, as_file, interactive, no_job_control }
}

// ------------------------------------------------------------------ rendering

fn render_redir(r: &Redir, heres: &mut Vec<String>) -> String {
    let fd = r.fd.map(|f| f.to_string()).unwrap_or_default();
    match r.op {
        Op::FileIn => format!("{fd}<{}", r.operand),
        Op::FileOut => format!("{fd}>{}", r.operand),
        Op::Clobber => format!("{fd}>|{}", r.operand),
        Op::Append => format!("{fd}>>{}", r.operand),
        Op::InOut => format!("{fd}<>{}", r.operand),
        Op::DupIn => format!("{fd}<&{}", r.operand),
        Op::DupOut => format!("{fd}>&{}", r.operand),
        Op::Here => {
            heres.push(r.operand.clone());
            format!("{fd}<<'EOF'")
        }
    }
}

fn render_ops(ops: &[IoOp], label: &str) -> String {
    let mut s = format!("t:{label}");
    for o in ops {
        match o {
            IoOp::W(fd, t) => s.push_str(&format!(" w{fd}:{t}")),
            IoOp::R(fd) => s.push_str(&format!(" r{fd}")),
        }
    }
    s
}

pub fn render(c: &Case) -> String {
    let mut s = String::from("fio() { io \"$@\"; }\nio t:a0\n");
    let mut k = 0;
    for item in &c.items {
        match item {
            Item::NoClobber(on) => {
                s.push_str(if *on { "set -C\n" } else { "set +C\n" });
            }
            Item::Cmd { kind, ops, redirs } => {
                k += 1;
                let mut heres = Vec::new();
                let rs: Vec<String> = redirs.iter().map(|r| render_redir(r, &mut heres)).collect();
                let rs = rs.join(" ");
                let o = render_ops(ops, &format!("d{k}"));
                let line = match kind {
                    Kind::Builtin => format!("io {o} {rs}"),
                    Kind::Func => format!("fio {o} {rs}"),
                    Kind::BuiltinAssign => format!("a{k}=$(io t:p{k}) io {o} {rs}"),
                    Kind::FuncAssign => format!("a{k}=$(io t:p{k}) fio {o} {rs}"),
                    Kind::Brace => format!("{{ io {o}; }} {rs}"),
                    Kind::IfC => format!("if rc 0; then io {o}; fi {rs}"),
                    Kind::ForC => format!("for i in 1; do io {o}; done {rs}"),
                    Kind::Subshell => format!("( io {o} ) {rs}"),
                    Kind::ExecCmd => format!("( trap 'io {o}' EXIT; exec nosuch_cmd {rs} )"),
                    Kind::ExitCmd => format!("( trap 'io {o}' EXIT; exit 3 {rs} )"),
                    Kind::Eval => format!("eval 'io {o}' {rs}"),
                    // (interactive programs: the commands run by `command`
                    // include one the shell has to wait for, so that a SIGINT
                    // can arrive while the built-in is suspended)
                    Kind::Command if c.interactive => format!("command eval 'y=$(rc 0); io {o}' {rs}"),
                    Kind::Command => format!("command io {o} {rs}"),
                    Kind::Dot => format!("command . /work/lib{k}.sh {rs}"),
                    Kind::CaseC => format!("case x in x) io {o};; esac {rs}"),
                    Kind::WhileC => format!("while rc 0; do io {o}; break; done {rs}"),
                    Kind::FuncDefRedir => {
                        // the here-document bodies belong to the definition line
                        let mut d = format!("g{k}() {{ io {o}; }} {rs}");
                        d = d.trim_end().to_string();
                        for h in heres.drain(..) {
                            d.push('\n');
                            d.push_str(&h);
                            d.push_str("EOF");
                        }
                        format!("{d}\ng{k}")
                    }
                    Kind::PipeLast => format!("rc 0 | io {o} {rs}"),
                    Kind::CmdSubst => format!("x{k}=$(io {o} {rs})"),
                    // (every other one with three stages: the shell then holds
                    // the reading end of the first pipe while it creates the second)
                    Kind::PipeFirst if k % 2 == 1 => format!("io {o} {rs} | relay 99 | relay 99"),
                    Kind::PipeFirst => {
                        // here-document bodies follow the whole pipeline line
                        format!("io {o} {rs} | relay 99")
                    }
                    Kind::NotFound => format!("nosuch_cmd {rs}"),
                    Kind::NotFoundAssign => format!("a{k}=$(io t:p{k}) nosuch_cmd {rs}"),
                    Kind::Empty => rs.to_string(),
                    Kind::Exec => format!("exec {rs}"),
                    // (every other one with a pathname expansion: reading a
                    // directory must not leave a descriptor behind either)
                    Kind::Colon if k % 2 == 0 => format!(": /work/* e* {rs}"),
                    Kind::Colon => format!(": {rs}"),
                };
                s.push_str(line.trim_end());
                s.push('\n');
                for h in heres {
                    s.push_str(&h);
                    s.push_str("EOF\n");
                }
                s.push_str(&format!("io t:a{k}\n"));
            }
        }
    }
    s
}

// ---------------------------------------------------------------------- model

#[derive(Clone, Debug, PartialEq)]
enum DK {
    Std(usize),
    File(String),
    Anon(usize),
    /// the shell's own descriptor (script file): never usable by redirections
    Internal,
}

#[derive(Clone, Debug)]
struct Desc {
    kind: DK,
    readable: bool,
    writable: bool,
    append: bool,
    offset: usize,
}

#[derive(Clone, Debug, Default)]
struct Model {
    fds: BTreeMap<i32, usize>,
    descs: Vec<Desc>,
    files: BTreeMap<String, Vec<u8>>,
    tainted: BTreeSet<String>,
    std: [Vec<u8>; 3],
    anon: Vec<Vec<u8>>,
    noclobber: bool,
    interactive: bool,
}

/// What the model predicts for one command.
#[derive(Clone, Debug, Default)]
pub struct CmdExpect {
    /// the command's redirections all succeed
    pub redirs_ok: bool,
    /// table seen by the command (fd -> desc id) when it runs
    pub during: Option<BTreeMap<i32, usize>>,
    /// (a command that does not run any probe itself) the table in effect
    /// while the assignment prefix is expanded
    pub prefix: Option<BTreeMap<i32, usize>>,
    /// (desc id -> path) for descs that are files
    pub during_paths: BTreeMap<usize, String>,
    pub results: Vec<String>,
    /// persistent table after the command (exec) - fd -> desc id
    pub after: BTreeMap<i32, usize>,
    pub status_zero: bool,
    /// the status is that of a later pipeline stage: not modelled
    pub status_unknown: bool,
    /// the shell exits at this command
    pub exits: bool,
}

impl Model {
    fn new(as_file: bool) -> Model {
        let mut m = Model::default();
        for k in 0..3 {
            m.descs.push(Desc {
                kind: DK::Std(k),
                readable: true,
                writable: true,
                append: true,
                offset: 0,
            });
            m.fds.insert(k as i32, k);
        }
        if as_file {
            m.descs.push(Desc {
                kind: DK::Internal,
                readable: true,
                writable: false,
                append: false,
                offset: 0,
            });
            m.fds.insert(10, 3);
        }
        m.files.insert("e1".into(), E1.to_vec());
        m.files.insert("e2".into(), E2.to_vec());
        m
    }

    fn open(&mut self, fds: &mut BTreeMap<i32, usize>, target: i32, d: Desc) {
        self.descs.push(d);
        fds.insert(target, self.descs.len() - 1);
    }

    /// Applies one redirection to `fds`; Err = the redirection fails.
    fn apply(&mut self, fds: &mut BTreeMap<i32, usize>, r: &Redir) -> Result<(), ()> {
        let target = r.fd.unwrap_or(match r.op {
            Op::FileIn | Op::InOut | Op::DupIn | Op::Here => 0,
            _ => 1,
        });
        // the shell's own descriptors cannot be redirected
        if let Some(d) = fds.get(&target)
            && self.descs[*d].kind == DK::Internal
        {
            return Err(());
        }
        let is_null = r.operand == "/dev/null";
        let missing_dir = r.operand.starts_with("nodir/");
        match r.op {
            Op::FileIn => {
                if is_null {
                    self.open(fds, target, Desc { kind: DK::File("/dev/null".into()), readable: true, writable: false, append: false, offset: 0 });
                    return Ok(());
                }
                if missing_dir || !self.files.contains_key(&r.operand) {
                    return Err(());
                }
                self.open(fds, target, Desc { kind: DK::File(r.operand.clone()), readable: true, writable: false, append: false, offset: 0 });
            }
            Op::FileOut | Op::Clobber => {
                if missing_dir {
                    return Err(());
                }
                if is_null {
                    self.open(fds, target, Desc { kind: DK::File("/dev/null".into()), readable: false, writable: true, append: false, offset: 0 });
                    return Ok(());
                }
                if r.op == Op::FileOut && self.noclobber && self.files.contains_key(&r.operand) {
                    return Err(());
                }
                self.files.insert(r.operand.clone(), Vec::new());
                self.open(fds, target, Desc { kind: DK::File(r.operand.clone()), readable: false, writable: true, append: false, offset: 0 });
            }
            Op::Append => {
                if missing_dir {
                    return Err(());
                }
                if !is_null {
                    self.files.entry(r.operand.clone()).or_default();
                }
                self.open(fds, target, Desc { kind: DK::File(r.operand.clone()), readable: false, writable: true, append: true, offset: 0 });
            }
            Op::InOut => {
                if missing_dir {
                    return Err(());
                }
                if !is_null {
                    self.files.entry(r.operand.clone()).or_default();
                }
                self.open(fds, target, Desc { kind: DK::File(r.operand.clone()), readable: true, writable: true, append: false, offset: 0 });
            }
            Op::DupIn | Op::DupOut => {
                if r.operand == "-" {
                    fds.remove(&target);
                    return Ok(());
                }
                let src: i32 = r.operand.parse().unwrap();
                let Some(&d) = fds.get(&src) else {
                    return Err(());
                };
                let desc = &self.descs[d];
                if desc.kind == DK::Internal {
                    return Err(());
                }
                let ok = if r.op == Op::DupIn { desc.readable } else { desc.writable };
                if !ok {
                    return Err(());
                }
                fds.insert(target, d);
            }
            Op::Here => {
                self.anon.push(r.operand.clone().into_bytes());
                let id = self.anon.len() - 1;
                self.open(fds, target, Desc { kind: DK::Anon(id), readable: true, writable: true, append: false, offset: 0 });
            }
        }
        Ok(())
    }

    fn content_mut(&mut self, kind: &DK) -> Option<&mut Vec<u8>> {
        match kind {
            DK::Std(k) => Some(&mut self.std[*k]),
            DK::File(p) if p == "/dev/null" => None,
            DK::File(p) => self.files.get_mut(p),
            DK::Anon(i) => self.anon.get_mut(*i),
            DK::Internal => None,
        }
    }

    fn io(&mut self, fds: &BTreeMap<i32, usize>, op: &IoOp) -> String {
        match op {
            IoOp::W(fd, text) => {
                let Some(&d) = fds.get(fd) else {
                    return format!("w{fd}:err");
                };
                if !self.descs[d].writable {
                    return format!("w{fd}:err");
                }
                let data = format!("{text}\n").into_bytes();
                let kind = self.descs[d].kind.clone();
                let append = self.descs[d].append;
                let mut offset = self.descs[d].offset;
                if let Some(content) = self.content_mut(&kind) {
                    if append {
                        offset = content.len();
                    }
                    if offset > content.len() {
                        content.resize(offset, 0);
                    }
                    let overlap = data.len().min(content.len() - offset);
                    content[offset..offset + overlap].copy_from_slice(&data[..overlap]);
                    content.extend_from_slice(&data[overlap..]);
                    offset += data.len();
                } else {
                    offset += data.len();
                }
                self.descs[d].offset = offset;
                format!("w{fd}:ok")
            }
            IoOp::R(fd) => {
                let Some(&d) = fds.get(fd) else {
                    return format!("r{fd}:err");
                };
                if !self.descs[d].readable {
                    return format!("r{fd}:err");
                }
                let kind = self.descs[d].kind.clone();
                let tainted = match &kind {
                    DK::File(p) => self.tainted.contains(p),
                    DK::Anon(i) => self.tainted.contains(&format!("<anon{i}>")),
                    _ => false,
                };
                if tainted {
                    // the file may contain shell diagnostics: unknown content
                    return format!("r{fd}:?");
                }
                let offset = self.descs[d].offset;
                let content: Vec<u8> = self.content_mut(&kind).cloned().unwrap_or_default();
                if offset >= content.len() {
                    return format!("r{fd}:eof");
                }
                let rest = &content[offset..];
                let n = rest.iter().position(|b| *b == b'\n').map_or(rest.len(), |p| p + 1);
                self.descs[d].offset = offset + n;
                let line = String::from_utf8_lossy(&rest[..n]).trim_end_matches('\n').to_string();
                format!("r{fd}:{line}")
            }
        }
    }

    /// Files reachable through fd 2 may receive diagnostics: content unknown.
    fn taint_stderr(&mut self, fds: &BTreeMap<i32, usize>) {
        if let Some(&d) = fds.get(&2) {
            match &self.descs[d].kind {
                DK::File(p) => {
                    self.tainted.insert(p.clone());
                }
                DK::Std(1) => {
                    self.tainted.insert("<stdout>".into());
                }
                DK::Anon(i) => {
                    self.tainted.insert(format!("<anon{i}>"));
                }
                _ => {}
            }
        }
    }

    fn run(&mut self, kind: Kind, ops: &[IoOp], redirs: &[Redir]) -> CmdExpect {
        let mut fds = self.fds.clone();
        let mut e = CmdExpect {
            status_unknown: kind == Kind::PipeFirst,
            ..Default::default()
        };
        // constructs that run the command in a child whose stdin/stdout is a
        // pipe, set up BEFORE the command's own redirections
        match kind {
            Kind::CmdSubst | Kind::PipeFirst => {
                if kind == Kind::PipeFirst {
                    // what the stage writes to the pipe is copied to the shell's
                    // stdout by `relay` (if that is open): not modelled
                    self.tainted.insert("<stdout>".into());
                    if let Some(&d) = self.fds.get(&1) {
                        match &self.descs[d].kind {
                            DK::File(p) => {
                                self.tainted.insert(p.clone());
                            }
                            DK::Anon(i) => {
                                self.tainted.insert(format!("<anon{i}>"));
                            }
                            _ => {}
                        }
                    }
                }
                self.anon.push(Vec::new());
                let id = self.anon.len() - 1;
                self.open(&mut fds, 1, Desc { kind: DK::Anon(id), readable: false, writable: true, append: false, offset: 0 });
            }
            Kind::PipeLast => {
                self.anon.push(Vec::new());
                let id = self.anon.len() - 1;
                self.open(&mut fds, 0, Desc { kind: DK::Anon(id), readable: true, writable: false, append: false, offset: 0 });
            }
            _ => {}
        }
        let mut ok = true;
        for r in redirs {
            self.taint_stderr(&fds);
            if self.apply(&mut fds, r).is_err() {
                ok = false;
                break;
            }
        }
        self.taint_stderr(&fds);
        self.taint_stderr(&self.fds.clone());
        e.redirs_ok = ok;
        if !ok {
            // (the status of a pipeline is that of its last stage)
            e.status_zero = kind == Kind::PipeFirst;
            e.exits = matches!(kind, Kind::Exec | Kind::Eval | Kind::Colon) && !self.interactive;
            e.after = self.fds.clone();
            return e;
        }
        match kind {
            Kind::NotFound => {
                e.status_zero = false;
            }
            Kind::NotFoundAssign => {
                e.prefix = Some(fds.clone());
                e.status_zero = false;
            }
            Kind::Empty | Kind::Colon => e.status_zero = true,
            Kind::Exec => {
                self.fds = fds.clone();
                e.status_zero = true;
            }
            Kind::ExitCmd => {
                // the trap action runs after the redirections were undone
                let before = self.fds.clone();
                let mut paths = BTreeMap::new();
                for d in before.values() {
                    if let DK::File(p) = &self.descs[*d].kind {
                        paths.insert(*d, p.clone());
                    }
                }
                e.during = Some(before.clone());
                e.during_paths = paths;
                for op in ops {
                    e.results.push(self.io(&before, op));
                }
                e.status_zero = false;
            }
            _ => {
                let mut paths = BTreeMap::new();
                for d in fds.values() {
                    if let DK::File(p) = &self.descs[*d].kind {
                        paths.insert(*d, p.clone());
                    }
                }
                e.during = Some(fds.clone());
                e.during_paths = paths;
                for op in ops {
                    e.results.push(self.io(&fds, op));
                }
                // (the utility is not found: the subshell exits with 127)
                e.status_zero = kind != Kind::ExecCmd;
            }
        }
        e.after = self.fds.clone();
        e
    }
}

pub struct Expect {
    pub cmds: Vec<CmdExpect>,
    pub files: BTreeMap<String, Vec<u8>>,
    pub tainted: BTreeSet<String>,
    pub stdout: Vec<u8>,
}

pub fn expect(c: &Case) -> Expect {
    let mut m = Model::new(c.as_file || c.interactive && !c.no_job_control);
    m.interactive = c.interactive;
    let mut cmds = Vec::new();
    for item in &c.items {
        match item {
            Item::NoClobber(on) => m.noclobber = *on,
            Item::Cmd { kind, ops, redirs } => {
                let e = m.run(*kind, ops, redirs);
                let exits = e.exits;
                cmds.push(e);
                if exits {
                    break;
                }
            }
        }
    }
    Expect {
        cmds,
        files: m.files,
        tainted: m.tainted,
        stdout: m.std[1].clone(),
    }
}

// ------------------------------------------------------------------- checking

#[derive(Clone, Debug, Default)]
struct Snap {
    label: String,
    pid: i32,
    status: i32,
    /// fd -> (ofd ptr, cloexec, inode ptr, readable, writable)
    fds: BTreeMap<i32, (u64, bool, u64, bool, bool)>,
    /// name in /work -> inode ptr
    files: BTreeMap<String, u64>,
}

fn parse_snap(pid: i32, text: &str) -> Option<Snap> {
    // label|status|fd,ptr,c,inode,r,w;...|name=ptr;...
    let mut parts = text.split('|');
    let label = parts.next()?.to_string();
    let status = parts.next()?.parse().ok()?;
    let mut s = Snap {
        label,
        pid,
        status,
        ..Default::default()
    };
    for ent in parts.next()?.split(';').filter(|e| !e.is_empty()) {
        let f: Vec<&str> = ent.split(',').collect();
        s.fds.insert(
            f[0].parse().ok()?,
            (
                f[1].parse().ok()?,
                f[2] == "1",
                f[3].parse().ok()?,
                f[4] == "1",
                f[5] == "1",
            ),
        );
    }
    for ent in parts.next()?.split(';').filter(|e| !e.is_empty()) {
        let (n, p) = ent.split_once('=')?;
        s.files.insert(n.to_string(), p.parse().ok()?);
    }
    Some(s)
}

fn table_str(s: &Snap) -> String {
    // open file descriptions are shown by their creation serial number
    s.fds
        .iter()
        .map(|(fd, (p, c, ..))| format!("{fd}{}->ofd{p}", if *c { "c" } else { "" }))
        .collect::<Vec<_>>()
        .join(" ")
}

/// Invariants that hold with and without faults.
fn check_invariants(c: &Case, obs: &Observed) -> Option<Viol> {
    if let Some(v) = check_liveness(obs) {
        return Some(v);
    }
    let snaps: Vec<Snap> = obs
        .history
        .iter()
        .filter(|e| e.kind == "iot")
        .filter_map(|e| parse_snap(e.pid, &e.text))
        .collect();
    // 3. shell-internal descriptors: >= 10 <=> close-on-exec
    for s in &snaps {
        for (fd, (_, cloexec, ..)) in &s.fds {
            if (*fd >= 10) != *cloexec {
                return Some((
                    "cloexec".into(),
                    "cloexec".into(),
                    format!(
                        "at probe {} (pid {}): descriptor {fd} {} close-on-exec; table: {}",
                        s.label,
                        s.pid,
                        if *cloexec { "has" } else { "lacks" },
                        table_str(s)
                    ),
                ));
            }
        }
    }
    // 1./5. restoration: the main shell's table after every command that is
    // not `exec` equals the table before it
    let kinds: Vec<Kind> = c
        .items
        .iter()
        .filter_map(|i| match i {
            Item::Cmd { kind, .. } => Some(*kind),
            _ => None,
        })
        .collect();
    let after: BTreeMap<usize, &Snap> = snaps
        .iter()
        .filter(|s| s.pid == 2 && s.label.starts_with('a'))
        .filter_map(|s| s.label[1..].parse::<usize>().ok().map(|k| (k, s)))
        .collect();
    for (k, s) in &after {
        if *k == 0 {
            continue;
        }
        let Some(prev) = after.get(&(k - 1)) else {
            continue;
        };
        let kind = kinds[k - 1];
        let strip = |s: &Snap, all: bool| -> BTreeMap<i32, (u64, bool)> {
            s.fds
                .iter()
                .filter(|(fd, _)| all || **fd >= 10)
                .map(|(fd, v)| (*fd, (v.0, v.1)))
                .collect()
        };
        let all = kind != Kind::Exec;
        if strip(s, all) != strip(prev, all) {
            let what = if all {
                "descriptor table after the command differs from the table before it"
            } else {
                "descriptors >= 10 after `exec` differ from before (a saved copy was left open)"
            };
            let leaked: Vec<i32> = s
                .fds
                .keys()
                .filter(|fd| !prev.fds.contains_key(fd))
                .copied()
                .collect();
            let key = if !leaked.is_empty() && leaked.iter().all(|f| *f >= 10) {
                "restore:leaked-save"
            } else {
                "restore"
            };
            return Some((
                "restore".into(),
                key.into(),
                format!(
                    "command {k} ({kind:?}): {what}\nbefore: {}\nafter:  {}",
                    table_str(prev),
                    table_str(s)
                ),
            ));
        }
    }
    None
}

fn kinds_of(c: &Case) -> Vec<Kind> {
    c.items
        .iter()
        .filter_map(|i| match i {
            Item::Cmd { kind, .. } => Some(*kind),
            _ => None,
        })
        .collect()
}

/// Full comparison with the model (fault-free runs only).
fn check_model(c: &Case, exp: &Expect, obs: &Observed) -> Option<Viol> {
    let snaps: Vec<Snap> = obs
        .history
        .iter()
        .filter(|e| e.kind == "iot")
        .filter_map(|e| parse_snap(e.pid, &e.text))
        .collect();
    let results: Vec<(i32, String)> = obs
        .history
        .iter()
        .filter(|e| e.kind == "io")
        .map(|e| (e.a as i32, e.text.clone()))
        .collect();
    let relation_ok = |s: &Snap, model: &BTreeMap<i32, usize>, paths: &BTreeMap<usize, String>| -> Result<(), String> {
        let open: BTreeSet<i32> = s.fds.keys().filter(|f| **f < 10).copied().collect();
        let want: BTreeSet<i32> = model.keys().filter(|f| **f < 10).copied().collect();
        if open != want {
            return Err(format!("open descriptors below 10 are {open:?}, model says {want:?}"));
        }
        for a in &open {
            for b in &open {
                let same_obs = s.fds[a].0 == s.fds[b].0;
                let same_model = model[a] == model[b];
                if same_obs != same_model {
                    return Err(format!(
                        "descriptors {a} and {b} {} an open file description, model says they {}",
                        if same_obs { "share" } else { "do not share" },
                        if same_model { "do" } else { "do not" }
                    ));
                }
            }
            if let Some(p) = paths.get(&model[a])
                && p != "/dev/null"
                && let Some(ino) = s.files.get(p)
                && *ino != s.fds[a].2
            {
                return Err(format!("descriptor {a} should refer to file {p} but refers to another file"));
            }
        }
        Ok(())
    };
    let mut ri = 0usize;
    for (i, e) in exp.cmds.iter().enumerate() {
        let k = i + 1;
        let during = snaps.iter().find(|s| s.label == format!("d{k}"));
        match (&e.during, during) {
            (Some(model), Some(s)) => {
                if let Err(msg) = relation_ok(s, model, &e.during_paths) {
                    return Some((
                        "during".into(),
                        "during".into(),
                        format!("command {k}: while the command runs: {msg}\nobserved table: {}", table_str(s)),
                    ));
                }
                let got: Vec<String> = results
                    .iter()
                    .filter(|(kk, _)| *kk as usize == k)
                    .map(|(_, t)| t.clone())
                    .collect();
                ri += got.len();
                let matches = got.len() == e.results.len()
                    && got
                        .iter()
                        .zip(&e.results)
                        .all(|(g, w)| g == w || w.ends_with(":?"));
                if !matches {
                    return Some((
                        "io-result".into(),
                        "io-result".into(),
                        format!("command {k}: I/O through the redirected descriptors gave {got:?}, model says {:?}", e.results),
                    ));
                }
            }
            (None, Some(_)) => {
                return Some((
                    "ran".into(),
                    "ran".into(),
                    format!("command {k} ran although one of its redirections must fail"),
                ));
            }
            (Some(_), None) => {
                return Some((
                    "not-run".into(),
                    "not-run".into(),
                    format!("command {k} did not run although all its redirections are valid"),
                ));
            }
            (None, None) => {}
        }
        if matches!(kinds_of(c).get(i), Some(Kind::BuiltinAssign | Kind::FuncAssign | Kind::NotFoundAssign)) {
            // the command substitution of the assignment prefix runs after the
            // redirections have been performed (and not at all if one fails)
            let p = snaps.iter().find(|s| s.label == format!("p{k}"));
            let table = if e.prefix.is_some() { &e.prefix } else { &e.during };
            match (table, p) {
                (Some(model), Some(s)) => {
                    let open: BTreeSet<i32> = s.fds.keys().filter(|f| **f < 10 && **f != 1).copied().collect();
                    let want: BTreeSet<i32> = model.keys().filter(|f| **f < 10 && **f != 1).copied().collect();
                    if open != want || !s.fds.contains_key(&1) {
                        return Some((
                            "assignment-order".into(),
                            "assignment-order".into(),
                            format!(
                                "command {k}: the command substitution in the assignment prefix sees descriptors {:?} (1 is its pipe), but the command's redirections give {want:?}: redirections are performed before assignments are expanded\nobserved table: {}",
                                open,
                                table_str(s)
                            ),
                        ));
                    }
                }
                (None, Some(_)) => {
                    return Some((
                        "assignment-order".into(),
                        "assignment-order".into(),
                        format!("command {k}: the assignment prefix was expanded although a redirection of the command must fail first"),
                    ));
                }
                (Some(_), None) => {
                    return Some(("not-run".into(), "not-run".into(), format!("command {k}: the assignment prefix was not expanded")));
                }
                (None, None) => {}
            }
        }
        if e.exits {
            // the shell must have exited: no later snapshot
            if snaps.iter().any(|s| s.pid == 2 && s.label == format!("a{k}")) {
                return Some((
                    "no-exit".into(),
                    "no-exit".into(),
                    format!("command {k}: a redirection error on a special built-in must make the non-interactive shell exit"),
                ));
            }
            break;
        }
        let Some(s) = snaps.iter().find(|s| s.pid == 2 && s.label == format!("a{k}")) else {
            return Some((
                "trace".into(),
                "trace".into(),
                format!("snapshot after command {k} is missing (shell ended early?) stderr {:?}", obs.stderr),
            ));
        };
        if let Err(msg) = relation_ok(s, &e.after, &BTreeMap::new()) {
            return Some((
                "persist".into(),
                "persist".into(),
                format!("after command {k}: {msg}\nobserved table: {}", table_str(s)),
            ));
        }
        if !e.status_unknown && (s.status == 0) != e.status_zero {
            return Some((
                "status".into(),
                "status".into(),
                format!("command {k}: exit status {} but model says {}", s.status, if e.status_zero { "zero" } else { "non-zero" }),
            ));
        }
    }
    let _ = ri;
    // 4. files
    for (name, content) in &exp.files {
        let got = obs.files.get(&format!("/work/{name}"));
        match got {
            None => {
                return Some((
                    "files".into(),
                    "files".into(),
                    format!("file {name} should exist after the script"),
                ));
            }
            Some((_, _, data)) => {
                if !exp.tainted.contains(name) && data != content {
                    return Some((
                        "files".into(),
                        "files".into(),
                        format!(
                            "file {name}: content {:?}, model says {:?}",
                            String::from_utf8_lossy(data),
                            String::from_utf8_lossy(content)
                        ),
                    ));
                }
            }
        }
    }
    for path in obs.files.keys() {
        let name = path.trim_start_matches("/work/");
        if path != "/work" && !exp.files.contains_key(name) && name != "script.sh" && !name.starts_with("nodir") && !name.starts_with("lib") {
            return Some((
                "files".into(),
                "files".into(),
                format!("file {name} exists after the script but the model never created it"),
            ));
        }
    }
    if !exp.tainted.contains("<stdout>") && obs.stdout.as_bytes() != exp.stdout.as_slice() {
        return Some((
            "files".into(),
            "files:stdout".into(),
            format!("stdout {:?}, model says {:?}", obs.stdout, String::from_utf8_lossy(&exp.stdout)),
        ));
    }
    let _ = c;
    None
}

fn spec_of(c: &Case) -> ScriptSpec {
    ScriptSpec {
        script: render(c),
        dash_c: !c.as_file,
        as_file: c.as_file,
        options: if c.interactive && c.no_job_control {
            vec!["-i".into(), "+m".into()]
        } else if c.interactive {
            vec!["-i".into()]
        } else {
            Vec::new()
        },
        files: {
            let mut files = vec![
                ("/work/e1".into(), E1.to_vec(), 0o644),
                ("/work/e2".into(), E2.to_vec(), 0o644),
            ];
            let mut k = 0;
            for item in &c.items {
                if let Item::Cmd { kind, ops, .. } = item {
                    k += 1;
                    if *kind == Kind::Dot {
                        files.push((
                            format!("/work/lib{k}.sh"),
                            format!(
                                "{}io {}\n",
                                if c.interactive { "y=$(rc 0)\n" } else { "" },
                                render_ops(ops, &format!("d{k}"))
                            )
                            .into_bytes(),
                            0o644,
                        ));
                    }
                }
            }
            files
        },
        ..Default::default()
    }
}

#[derive(Clone, Debug, Serialize, Deserialize)]
struct Stored {
    case: Case,
    /// NOFILE soft limit applied to the shell process (0 = none)
    nofile: u64,
    /// compare with the model (fault-free run)
    full: bool,
    /// > 0: SIGINT is sent to the (interactive) main shell at seeded
    /// scheduler step (permille per step), once
    #[serde(default)]
    sigint: u32,
}

fn run_one(s: &Stored, cfg: &SimConfig, decider: Decider) -> (Observed, Option<Viol>) {
    let sigint_rate = s.sigint;
    let nofile = s.nofile;
    let mut sent = 0u32;
    let obs = run_script_with(
        &spec_of(&s.case),
        cfg,
        decider,
        |w| {
            if nofile > 0 {
                w.system
                    .setrlimit(
                        Resource::NOFILE,
                        LimitPair {
                            soft: nofile as _,
                            hard: INFINITY,
                        },
                    )
                    .ok();
            }
        },
        |sim: &mut crate::sim::Sim, _step: u64| {
            if sigint_rate == 0 || sent >= 1 {
                return true;
            }
            if !sim.ctl.decider.borrow_mut().chance(crate::rng::tag::ENV, sigint_rate) {
                return true;
            }
            let alive = sim
                .state
                .borrow()
                .processes
                .get(&yash_env::job::Pid(2))
                .is_some_and(|p| p.state() == yash_env::job::ProcessState::Running);
            if alive {
                use yash_env::system::SendSignal as _;
                let sys = yash_env::system::r#virtual::VirtualSystem {
                    state: std::rc::Rc::clone(&sim.state),
                    process_id: yash_env::job::Pid(1),
                };
                sim.ctl.quiet.set(true);
                drop(sys.kill(yash_env::job::Pid(2), Some(yash_env::system::r#virtual::SIGINT)));
                sim.ctl.quiet.set(false);
                sent += 1;
                sim.ctl.count("sigint_injected");
                sim.ctl.record(1, "deliver", 0, 0, "INT");
            }
            true
        },
    );
    let mut v = check_invariants(&s.case, &obs);
    if v.is_none() && s.full {
        v = check_model(&s.case, &expect(&s.case), &obs);
    }
    (obs, v)
}

fn failure(s: &Stored, cfg: &SimConfig, obs: &Observed, v: Viol) -> Failure {
    let fault = if let Some(k) = cfg.fail_alloc_at {
        format!("fd allocation #{k} fails with EMFILE")
    } else if let Some(k) = cfg.fail_write_at {
        format!("write #{k} to a regular file fails with ENOSPC")
    } else if s.nofile > 0 {
        format!("RLIMIT_NOFILE soft limit {}", s.nofile)
    } else if s.sigint > 0 {
        "SIGINT sent to the interactive shell at seeded steps".into()
    } else {
        "no fault".into()
    };
    // (SIGINT runs: the key names the kind of command that was being executed
    // when the signal arrived)
    let key = if s.sigint > 0 {
        let kinds: Vec<Kind> = s
            .case
            .items
            .iter()
            .filter_map(|i| match i {
                Item::Cmd { kind, .. } => Some(*kind),
                _ => None,
            })
            .collect();
        let mut last_probe = 0usize;
        let mut hit: Vec<String> = Vec::new();
        for e in &obs.history {
            if e.kind == "iot" && e.pid == 2 {
                if let Some(k) = e.text.split('|').next().and_then(|l| l.strip_prefix('a')).and_then(|n| n.parse::<usize>().ok()) {
                    last_probe = k;
                }
            } else if e.kind == "deliver" && e.text == "INT" {
                let name = kinds.get(last_probe).map(|k| format!("{k:?}")).unwrap_or_else(|| "end".into());
                if !hit.contains(&name) {
                    hit.push(name);
                }
            }
        }
        hit.sort();
        format!("sigint-during-{}:{}", hit.join("+"), v.0)
    } else {
        v.1
    };
    Failure {
        class: v.0,
        key,
        detail: format!("{} [{fault}]\n--- script ---\n{}", v.2, render(&s.case)),
        case: serde_json::to_value(s).unwrap(),
        cfg: cfg.clone(),
        decisions: obs.decisions.clone(),
        history_tail: history_tail(&obs.history, 30),
    }
}

pub struct C09;

impl Prop for C09 {
    fn id(&self) -> &'static str {
        "C09"
    }
    fn level(&self) -> &'static str {
        "fault_enumeration"
    }
    fn rule(&self) -> String {
        "Seeded programs of 2-9 commands; each command is one of 12 kinds (regular built-in, function, brace group, if, for, subshell, eval, command, not-found, redirection-only, exec, `:`; further kinds added later: case, while, function definition with redirections, first and last pipeline stage, command substitution, built-in / function with an assignment prefix, the `.` built-in, and `exec` with a command operand that cannot be executed, observed from the EXIT trap of its subshell, and a command that is not found with a command substitution in its assignment prefix) with 0-4 redirections over all operators (< > >| >> <> <&n >&n <&- >&- here-document), target descriptors 0-10, operands existing/missing/missing-directory//dev/null, sources open/closed/wrong-mode/shell-internal, noclobber toggled. A POSIX redirection-table model (descriptions with shared offsets, append, truncation) is stepped alongside and predicts the table seen by the command, I/O results through the redirected descriptors, the persistent table, statuses and final files. Faults ENUMERATED per program: the fault-free run counts the K descriptor allocations (all processes) and the program is re-run K times failing exactly the k-th allocation with EMFILE; plus runs under RLIMIT_NOFILE soft limits 3..16 and seeded schedules with preemption. Under faults only the non-relaxable invariants are checked (table restored after every non-exec command, no descriptor >= 10 left after exec, >=10 <=> close-on-exec, termination). A run is distinct non-trivial if it fired a fault or had >= 2 processes, keyed by (script hash, fault position/limit, schedule hash). Every position at which a write to a regular file can fail with ENOSPC is enumerated as well (up to 12/40 per program); `:` commands carry pathname expansions. A third of the `-c` programs run in an interactive shell (`-i`): a redirection error on a special built-in does not end it, so failing redirections on `exec`, `eval` and `:` occur at every position of a program, not only at its end. Interactive programs are also run with one SIGINT sent to the shell at a seeded scheduler step (the command being executed is abandoned, the shell goes on with the next line); in those programs `command` runs `eval 'y=$(rc 0); io ...'` and dot scripts start with a command substitution, so that the signal can arrive while a built-in is suspended. Same never-relaxed invariants.".into()
    }
    /// The known finding `sigint-during-command-builtin` covers descriptor
    /// leaks after a SIGINT that arrived while a `command . FILE` or
    /// `command eval ...` line (kinds Dot, Command) was being executed - and
    /// nothing else: a leak after an interrupt of any other kind of command
    /// has another key.
    fn matches_known(&self, failure_key: &str, finding_key: &str) -> bool {
        if finding_key == "sigint-during-command-builtin" {
            return failure_key.starts_with("sigint-during-Dot:") || failure_key.starts_with("sigint-during-Command:");
        }
        failure_key == finding_key
    }
    fn assumptions(&self) -> Vec<String> {
        vec![
            "decided relative to the repository's simulated kernel; descriptor identity is the address of the simulated open file description".into(),
            "allocation failure positions are enumerated completely per program; the programs themselves are sampled".into(),
            "stderr content is not modelled: files that ever sat behind descriptor 2 are compared for existence only".into(),
        ]
    }
    fn components(&self) -> Value {
        json!({
            "real": ["yash-semantics redir.rs / here_doc.rs (perform, RedirGuard)", "simple command / compound command / function / exec redirection handling", "yash-env io::move_fd_internal", "VirtualSystem descriptor tables, open/dup/dup2/close, RLIMIT_NOFILE"],
            "stub": ["io probe built-in (writes/reads through descriptors, records the descriptor table)", "EMFILE injection hook", "seeded scheduler"]
        })
    }
    fn cases(&self, tier: Tier) -> u64 {
        match tier {
            Tier::Quick => 5000,
            Tier::Thorough => 30_000,
        }
    }

    fn run_case(&self, seed: u64, index: u64, tier: Tier, stats: &mut Stats) -> Option<Failure> {
        let mut rng = Rng::stream(seed, 9, index);
        let case = generate(&mut rng, tier);
        let script = render(&case);
        let case_hash = hash_str(&script);
        let mut note = |stats: &mut Stats, obs: &Observed, extra: u64| {
            stats.note_run(case_hash ^ extra.wrapping_mul(0x9E37_79B9_7F4A_7C15), &obs.outcome, obs.faults_fired + extra);
            stats.add_counters(&obs.counters);
            stats.digest(index, obs_digest(obs));
        };
        // fault-free baseline, full model comparison
        let base = Stored {
            case: case.clone(),
            nofile: 0,
            full: true,
            sigint: 0,
        };
        let cfg0 = SimConfig {
            fail_alloc_pid: None,
            ..Default::default()
        };
        let (obs0, v) = run_one(&base, &cfg0, Decider::record(Rng::stream(seed, 900, index)));
        note(stats, &obs0, 0);
        stats.count("mode:fault-free", 1);
        if stats.samples.len() < 2 && index % 11 == 0 {
            stats.samples.push(json!({
                "script": script,
                "fd_allocations_in_fault_free_run": obs0.alloc_count,
                "enumerated_failure_positions": obs0.alloc_count,
                "history_head": obs0.history.iter().filter(|e| e.kind == "iot" || e.kind == "io").take(12).map(|e| format!("pid{} {} {}", e.pid, e.kind, e.text.split('|').take(2).collect::<Vec<_>>().join("|"))).collect::<Vec<_>>(),
            }));
        }
        if let Some(v) = v {
            return Some(failure(&base, &cfg0, &obs0, v));
        }
        // seeded schedules (subshell kinds fork), still fault free
        for k in 1..=2u32 {
            let cfg = SimConfig {
                strategy: Strategy::Random,
                preempt_permille: *rng.pick(&[20u32, 200]),
                fail_alloc_pid: None,
                ..Default::default()
            };
            let (obs, v) = run_one(&base, &cfg, Decider::record(Rng::stream(seed, 900 + k as u64, index)));
            note(stats, &obs, 0);
            stats.count("mode:fault-free-scheduled", 1);
            if let Some(v) = v {
                return Some(failure(&base, &cfg, &obs, v));
            }
        }
        // every allocation failure position
        let k_max = obs0.alloc_count;
        stats.count("enumerated_positions", k_max as u64);
        let faulted = Stored {
            case: case.clone(),
            nofile: 0,
            full: false,
            sigint: 0,
        };
        // (the first two allocations of an interactive shell are its descriptor
        // for the terminal, before the script starts: without it descriptor 10 is
        // an ordinary one and the shell opens the terminal again later)
        for k in (if case.interactive && !case.no_job_control { 3 } else { 1 })..=k_max {
            let cfg = SimConfig {
                fail_alloc_at: Some(k),
                fail_alloc_pid: None,
                ..Default::default()
            };
            let (obs, v) = run_one(&faulted, &cfg, Decider::record(Rng::stream(seed, 950, index)));
            note(stats, &obs, k as u64);
            stats.count("mode:emfile-at-k", 1);
            if let Some(v) = v {
                return Some(failure(&faulted, &cfg, &obs, v));
            }
        }
        // every position at which a write to a regular file can fail (full
        // disk): here-document bodies being stored, output of the commands,
        // diagnostics. Same never-relaxed invariants.
        let w_max = obs0.file_io.0.min(match tier {
            Tier::Quick => 12,
            Tier::Thorough => 40,
        });
        stats.count("enumerated_write_failure_positions", w_max as u64);
        for k in 1..=w_max {
            let cfg = SimConfig {
                fail_write_at: Some(k),
                fail_alloc_pid: None,
                ..Default::default()
            };
            let (obs, v) = run_one(&faulted, &cfg, Decider::record(Rng::stream(seed, 955, index)));
            note(stats, &obs, 500 + k as u64);
            stats.count("mode:enospc-at-k", 1);
            if let Some(v) = v {
                return Some(failure(&faulted, &cfg, &obs, v));
            }
        }
        // an interactive shell interrupted by SIGINT at seeded instants: the
        // command being executed is abandoned, the shell goes on with the next
        // line; same never-relaxed invariants
        if case.interactive {
            for k in 0..match tier {
                Tier::Quick => 6u32,
                Tier::Thorough => 16,
            } {
                let cfg = SimConfig {
                    strategy: if k % 2 == 0 { Strategy::Fifo } else { Strategy::Random },
                    preempt_permille: if k % 2 == 0 { 0 } else { 100 },
                    fail_alloc_pid: None,
                    ..Default::default()
                };
                let interrupted = Stored {
                    case: case.clone(),
                    nofile: 0,
                    full: false,
                    sigint: *rng.pick(&[15u32, 40, 100]),
                };
                let (obs, v) = run_one(&interrupted, &cfg, Decider::record(Rng::stream(seed, 970 + k as u64, index)));
                note(stats, &obs, 2000 + k as u64);
                stats.count("mode:sigint", 1);
                if obs.counters.get("sigint_injected").copied().unwrap_or(0) > 0 {
                    stats.count("reach:sigint-delivered", 1);
                }
                if let Some(v) = v {
                    return Some(failure(&interrupted, &cfg, &obs, v));
                }
            }
        }
        // lowered descriptor limits
        let limits: Vec<u64> = match tier {
            Tier::Quick => vec![3, 10, 11, 12, rng.range(4, 16) as u64],
            Tier::Thorough => (3..=16).collect(),
        };
        for l in limits {
            let s = Stored {
                case: case.clone(),
                nofile: l,
                full: false,
                sigint: 0,
            };
            let (obs, v) = run_one(&s, &cfg0, Decider::record(Rng::stream(seed, 960, index)));
            note(stats, &obs, 1000 + l);
            stats.count("mode:nofile-limit", 1);
            if obs.stderr.contains("cannot redirect") || obs.stderr.contains("Too many open files") {
                stats.count("reach:limit-made-a-redirection-fail", 1);
            }
            if let Some(v) = v {
                return Some(failure(&s, &cfg0, &obs, v));
            }
        }
        None
    }

    fn rerun(&self, case: &Value, cfg: &SimConfig, decisions: &[Decision]) -> Option<Failure> {
        let s: Stored = serde_json::from_value(case.clone()).ok()?;
        let (obs, v) = run_one(&s, cfg, Decider::replay(decisions));
        v.map(|v| failure(&s, cfg, &obs, v))
    }

    fn shrink(&self, case: &Value) -> Vec<Value> {
        let Ok(s) = serde_json::from_value::<Stored>(case.clone()) else {
            return Vec::new();
        };
        // Only meaningful when no allocation index is involved (indices shift);
        // the harness re-runs with the same configuration, so restrict
        // shrinking to dropping trailing items and I/O ops, which do not move
        // earlier allocations.
        let mut out = Vec::new();
        let n = s.case.items.len();
        if n > 1 {
            let mut c = s.case.clone();
            c.items.pop();
            out.push(serde_json::to_value(Stored { case: c, ..s.clone() }).unwrap());
        }
        for i in 0..n {
            if let Item::Cmd { kind, ops, redirs } = &s.case.items[i] {
                if !ops.is_empty() {
                    let mut c = s.case.clone();
                    c.items[i] = Item::Cmd {
                        kind: *kind,
                        ops: Vec::new(),
                        redirs: redirs.clone(),
                    };
                    out.push(serde_json::to_value(Stored { case: c, ..s.clone() }).unwrap());
                }
                if s.full || s.nofile > 0 {
                    // without an allocation index, items can be dropped anywhere
                    let mut c = s.case.clone();
                    c.items.remove(i);
                    if !c.items.is_empty() {
                        out.push(serde_json::to_value(Stored { case: c, ..s.clone() }).unwrap());
                    }
                    for j in 0..redirs.len() {
                        let mut r = redirs.clone();
                        r.remove(j);
                        if r.is_empty() && matches!(kind, Kind::Empty | Kind::Exec) {
                            continue;
                        }
                        let mut c = s.case.clone();
                        c.items[i] = Item::Cmd {
                            kind: *kind,
                            ops: ops.clone(),
                            redirs: r,
                        };
                        out.push(serde_json::to_value(Stored { case: c, ..s.clone() }).unwrap());
                    }
                }
            }
        }
        out
    }
}
