//! Engine (p) of C14: one pipe of the simulated kernel, driven through the
//! public `VirtualSystem` calls by seeded operation histories, against a
//! reference model of a POSIX pipe.
//!
//! Operations are started as futures and polled once; a blocked one stays in
//! a table with its own wake flag. After every operation the model says which
//! blocked operations can now make progress: those must have been woken (no
//! lost wake-up) and are polled again, and their results (byte counts, the
//! bytes themselves, EOF, EPIPE, EAGAIN) must be the model's. `select` with a
//! zero timeout must agree with the model's readiness, and readiness must
//! agree with what the next non-blocking operation does.

use crate::rng::Rng;
use serde::{Deserialize, Serialize};
use std::collections::{BTreeMap, VecDeque};
use std::future::Future;
use std::pin::Pin;
use std::sync::Arc;
use std::sync::atomic::{AtomicU32, Ordering};
use std::task::{Context, Poll, Wake, Waker};
use std::time::Duration;
use yash_env::io::Fd;
use yash_env::system::r#virtual::{PIPE_BUF, PIPE_SIZE, VirtualSystem};
use yash_env::system::{Close as _, Dup as _, Errno, Fcntl as _, FdSet as _, Pipe as _, Read as _, Select as _, Write as _};

#[derive(Clone, Debug, Serialize, Deserialize, PartialEq)]
pub enum POp {
    /// write N bytes through writer descriptor k
    Write(u16, u8),
    /// read up to N bytes through reader descriptor k
    Read(u16, u8),
    DupWriter,
    DupReader,
    /// close writer / reader descriptor k (not one with a blocked operation)
    CloseWriter(u8),
    CloseReader(u8),
    /// switch the non-blocking mode of the write / read end
    NonblockWriter(bool),
    NonblockReader(bool),
    /// compare select (zero timeout) with the model
    Select,
}

#[derive(Clone, Debug, Serialize, Deserialize, PartialEq)]
pub struct PHist {
    pub ops: Vec<POp>,
}

pub fn generate(rng: &mut Rng, long: bool) -> PHist {
    let n = rng.range(3, if long { 50 } else { 20 });
    let sizes: [u16; 14] = [
        0,
        1,
        2,
        7,
        (PIPE_BUF - 1) as u16,
        PIPE_BUF as u16,
        (PIPE_BUF + 1) as u16,
        (PIPE_SIZE - 1) as u16,
        PIPE_SIZE as u16,
        (PIPE_SIZE + 1) as u16,
        (2 * PIPE_SIZE + 3) as u16,
        300,
        700,
        100,
    ];
    let w_write = rng.range(2, 8);
    let w_read = rng.range(2, 8);
    let mut ops = Vec::new();
    for _ in 0..n {
        let x = rng.below(w_write + w_read + 9);
        ops.push(if x < w_write {
            POp::Write(*rng.pick(&sizes), rng.below(3) as u8)
        } else if x < w_write + w_read {
            POp::Read(*rng.pick(&sizes), rng.below(3) as u8)
        } else {
            match x - w_write - w_read {
                0 => POp::DupWriter,
                1 => POp::DupReader,
                2 => POp::CloseWriter(rng.below(3) as u8),
                3 => POp::CloseReader(rng.below(3) as u8),
                4 => POp::NonblockWriter(rng.bool()),
                5 => POp::NonblockReader(rng.bool()),
                _ => POp::Select,
            }
        });
    }
    PHist { ops }
}

struct Flag(AtomicU32);
impl Wake for Flag {
    fn wake(self: Arc<Self>) {
        self.0.fetch_add(1, Ordering::SeqCst);
    }
}

type IoResult = (Result<usize, Errno>, Vec<u8>);
type Fut = Pin<Box<dyn Future<Output = IoResult>>>;

struct Blocked {
    fut: Fut,
    flag: Arc<Flag>,
    seen_wakes: u32,
    is_write: bool,
    fd: Fd,
    /// write: the data; read: the buffer size
    data: Vec<u8>,
    size: usize,
    /// model: bytes of a blocked write that are already in the pipe
    written: usize,
    op_index: usize,
}

#[derive(Default)]
struct Model {
    data: VecDeque<u8>,
    readers: Vec<Fd>,
    writers: Vec<Fd>,
    nonblock_r: bool,
    nonblock_w: bool,
}

enum Step {
    Done(Result<usize, Errno>, Vec<u8>),
    Blocks,
}

impl Model {
    fn room(&self) -> usize {
        PIPE_SIZE - self.data.len()
    }
    fn readable(&self) -> bool {
        !self.data.is_empty() || self.writers.is_empty()
    }
    fn writable(&self) -> bool {
        self.readers.is_empty() || self.room() >= PIPE_BUF
    }
    /// One attempt of read(2) with a buffer of `size` bytes.
    fn read(&mut self, size: usize) -> Step {
        if size == 0 {
            return Step::Done(Ok(0), Vec::new());
        }
        if self.data.is_empty() {
            if self.writers.is_empty() {
                return Step::Done(Ok(0), Vec::new());
            }
            return if self.nonblock_r { Step::Done(Err(Errno::EAGAIN), Vec::new()) } else { Step::Blocks };
        }
        let n = size.min(self.data.len());
        let bytes: Vec<u8> = self.data.drain(..n).collect();
        Step::Done(Ok(n), bytes)
    }
    /// Continues write(2) of `data` of which `written` bytes are in the pipe.
    fn write(&mut self, data: &[u8], written: &mut usize) -> Step {
        loop {
            let rest = &data[*written..];
            if rest.is_empty() {
                return Step::Done(Ok(*written), Vec::new());
            }
            if self.readers.is_empty() {
                return Step::Done(if *written > 0 { Ok(*written) } else { Err(Errno::EPIPE) }, Vec::new());
            }
            let room = self.room();
            let n = if room < rest.len() {
                if room == 0 || rest.len() <= PIPE_BUF {
                    return if self.nonblock_w {
                        Step::Done(if *written > 0 { Ok(*written) } else { Err(Errno::EAGAIN) }, Vec::new())
                    } else {
                        Step::Blocks
                    };
                }
                room
            } else {
                rest.len()
            };
            self.data.extend(&rest[..n]);
            *written += n;
            if self.nonblock_w {
                // a non-blocking write returns after the first transfer
                return Step::Done(Ok(*written), Vec::new());
            }
        }
    }
}

fn poll_once(b: &mut Blocked) -> Poll<IoResult> {
    let waker = Waker::from(b.flag.clone());
    let mut cx = Context::from_waker(&waker);
    b.fut.as_mut().poll(&mut cx)
}

/// Runs one history; returns (violation class, detail) or None.
pub fn run(h: &PHist, reach: &mut BTreeMap<&'static str, u64>) -> Option<(String, String)> {
    yash_env::system::r#virtual::sim_hook::install(None);
    let sys = VirtualSystem::new();
    let (r0, w0) = sys.pipe().ok()?;
    let mut m = Model::default();
    m.readers.push(r0);
    m.writers.push(w0);
    let mut blocked: Vec<Blocked> = Vec::new();
    let mut next_byte: u8 = 0;

    macro_rules! fail {
        ($class:expr, $($arg:tt)*) => {
            return Some(($class.to_string(), format!($($arg)*)))
        };
    }

    for (i, op) in h.ops.iter().enumerate() {
        match op {
            POp::Write(n, k) => {
                if m.writers.is_empty() {
                    continue;
                }
                let fd = m.writers[*k as usize % m.writers.len()];
                // one blocked operation per direction keeps the expected order of
                // service unambiguous
                if blocked.iter().any(|b| b.is_write) {
                    continue;
                }
                let data: Vec<u8> = (0..*n)
                    .map(|_| {
                        next_byte = next_byte.wrapping_add(1);
                        next_byte
                    })
                    .collect();
                let sys2 = sys.clone();
                let d2 = data.clone();
                let fut: Fut = Box::pin(async move {
                    let r = sys2.write(fd, &d2).await;
                    (r, Vec::new())
                });
                let mut b = Blocked {
                    fut,
                    flag: Arc::new(Flag(AtomicU32::new(0))),
                    seen_wakes: 0,
                    is_write: true,
                    fd,
                    data,
                    size: *n as usize,
                    written: 0,
                    op_index: i,
                };
                let got = poll_once(&mut b);
                let want = m.write(&b.data.clone(), &mut b.written);
                match (got, want) {
                    (Poll::Ready((r, _)), Step::Done(w, _)) => {
                        if r != w {
                            fail!("write-result", "op #{i} {op:?}: write returned {r:?}, the model says {w:?} (pipe holds {} bytes, {} readers)", m.data.len(), m.readers.len());
                        }
                    }
                    (Poll::Pending, Step::Blocks) => {
                        *reach.entry("write blocked").or_insert(0) += 1;
                        blocked.push(b);
                    }
                    (Poll::Ready((r, _)), Step::Blocks) => {
                        fail!("write-result", "op #{i} {op:?}: write returned {r:?} where the model blocks (pipe holds {} bytes)", m.data.len())
                    }
                    (Poll::Pending, Step::Done(w, _)) => {
                        fail!("write-result", "op #{i} {op:?}: write blocks where the model returns {w:?} (pipe holds {} bytes, {} readers)", m.data.len(), m.readers.len())
                    }
                }
            }
            POp::Read(n, k) => {
                if m.readers.is_empty() {
                    continue;
                }
                let fd = m.readers[*k as usize % m.readers.len()];
                if blocked.iter().any(|b| !b.is_write) {
                    continue;
                }
                let size = *n as usize;
                let sys2 = sys.clone();
                let fut: Fut = Box::pin(async move {
                    let mut buf = vec![0u8; size];
                    let r = sys2.read(fd, &mut buf).await;
                    if let Ok(c) = r {
                        buf.truncate(c);
                    }
                    (r, buf)
                });
                let mut b = Blocked {
                    fut,
                    flag: Arc::new(Flag(AtomicU32::new(0))),
                    seen_wakes: 0,
                    is_write: false,
                    fd,
                    data: Vec::new(),
                    size,
                    written: 0,
                    op_index: i,
                };
                let got = poll_once(&mut b);
                let want = m.read(size);
                match (got, want) {
                    (Poll::Ready((r, bytes)), Step::Done(w, wbytes)) => {
                        if r != w || (r.is_ok() && bytes != wbytes) {
                            fail!("read-result", "op #{i} {op:?}: read returned {r:?} {:?}..., the model says {w:?} {:?}...", &bytes[..bytes.len().min(6)], &wbytes[..wbytes.len().min(6)]);
                        }
                    }
                    (Poll::Pending, Step::Blocks) => {
                        *reach.entry("read blocked").or_insert(0) += 1;
                        blocked.push(b);
                    }
                    (Poll::Ready((r, _)), Step::Blocks) => {
                        fail!("read-result", "op #{i} {op:?}: read returned {r:?} where the model blocks")
                    }
                    (Poll::Pending, Step::Done(w, _)) => {
                        fail!("read-result", "op #{i} {op:?}: read blocks where the model returns {w:?} (pipe holds {} bytes, {} writers)", m.data.len(), m.writers.len())
                    }
                }
            }
            POp::DupWriter => {
                if let Some(fd) = m.writers.first().copied()
                    && m.writers.len() < 3
                    && let Ok(n) = sys.dup(fd, Fd(0), Default::default())
                {
                    m.writers.push(n);
                }
            }
            POp::DupReader => {
                if let Some(fd) = m.readers.first().copied()
                    && m.readers.len() < 3
                    && let Ok(n) = sys.dup(fd, Fd(0), Default::default())
                {
                    m.readers.push(n);
                }
            }
            POp::CloseWriter(k) => {
                if m.writers.is_empty() {
                    continue;
                }
                let idx = *k as usize % m.writers.len();
                let fd = m.writers[idx];
                if blocked.iter().any(|b| b.fd == fd) {
                    continue;
                }
                sys.close(fd).ok();
                m.writers.remove(idx);
                if m.writers.is_empty() {
                    *reach.entry("last writer closed").or_insert(0) += 1;
                }
            }
            POp::CloseReader(k) => {
                if m.readers.is_empty() {
                    continue;
                }
                let idx = *k as usize % m.readers.len();
                let fd = m.readers[idx];
                if blocked.iter().any(|b| b.fd == fd) {
                    continue;
                }
                sys.close(fd).ok();
                m.readers.remove(idx);
                if m.readers.is_empty() {
                    *reach.entry("last reader closed").or_insert(0) += 1;
                }
            }
            POp::NonblockWriter(on) => {
                // (a blocked operation keeps the mode it was started with)
                if blocked.iter().any(|b| b.is_write) {
                    continue;
                }
                if let Some(fd) = m.writers.first().copied() {
                    sys.get_and_set_nonblocking(fd, *on).ok();
                    m.nonblock_w = *on;
                }
            }
            POp::NonblockReader(on) => {
                if blocked.iter().any(|b| !b.is_write) {
                    continue;
                }
                if let Some(fd) = m.readers.first().copied() {
                    sys.get_and_set_nonblocking(fd, *on).ok();
                    m.nonblock_r = *on;
                }
            }
            POp::Select => {
                let mut rs = yash_env::system::r#virtual::fd_set::FdSet::default();
                let mut ws = yash_env::system::r#virtual::fd_set::FdSet::default();
                if let Some(fd) = m.readers.first() {
                    rs.insert(*fd);
                }
                if let Some(fd) = m.writers.first() {
                    ws.insert(*fd);
                }
                let want_r = !m.readers.is_empty() && m.readable();
                let want_w = !m.writers.is_empty() && m.writable();
                let polled = {
                    let mut fut = Box::pin(sys.select(&mut rs, &mut ws, Some(Duration::ZERO), None));
                    let waker = Waker::noop();
                    let mut cx = Context::from_waker(waker);
                    fut.as_mut().poll(&mut cx)
                };
                let Poll::Ready(res) = polled else {
                    fail!("select", "op #{i}: select with a zero timeout is pending")
                };
                let got_r = m.readers.first().is_some_and(|fd| rs.contains(*fd));
                let got_w = m.writers.first().is_some_and(|fd| ws.contains(*fd));
                if res.is_err() || got_r != want_r || got_w != want_w {
                    fail!(
                        "select",
                        "op #{i}: select says readable={got_r} writable={got_w} ({res:?}), the model says readable={want_r} writable={want_w} (pipe holds {} bytes, {} readers, {} writers)",
                        m.data.len(),
                        m.readers.len(),
                        m.writers.len()
                    );
                }
            }
        }
        // blocked operations: progress wherever the model allows it
        loop {
            let mut progressed = false;
            let mut k = 0;
            while k < blocked.len() {
                let can = if blocked[k].is_write {
                    let b = &blocked[k];
                    let rest = b.size - b.written;
                    m.readers.is_empty() || (if rest <= PIPE_BUF { m.room() >= rest } else { m.room() > 0 })
                } else {
                    m.readable()
                };
                if !can {
                    // a spurious wake-up is allowed; the operation must stay blocked
                    let wakes = blocked[k].flag.0.load(Ordering::SeqCst);
                    if wakes != blocked[k].seen_wakes {
                        blocked[k].seen_wakes = wakes;
                        if let Poll::Ready((r, _)) = poll_once(&mut blocked[k]) {
                            fail!(
                                "blocked-result",
                                "after op #{i} {op:?}: the blocked {} of op #{} returned {r:?} although the model says it must still wait",
                                if blocked[k].is_write { "write" } else { "read" },
                                blocked[k].op_index
                            );
                        }
                    }
                    k += 1;
                    continue;
                }
                let wakes = blocked[k].flag.0.load(Ordering::SeqCst);
                if wakes == blocked[k].seen_wakes {
                    fail!(
                        "lost-wakeup",
                        "after op #{i} {op:?}: the blocked {} of op #{} can proceed (pipe holds {} bytes, {} readers, {} writers) but its waker was not woken",
                        if blocked[k].is_write { "write" } else { "read" },
                        blocked[k].op_index,
                        m.data.len(),
                        m.readers.len(),
                        m.writers.len()
                    );
                }
                blocked[k].seen_wakes = wakes;
                let got = poll_once(&mut blocked[k]);
                let want = if blocked[k].is_write {
                    let data = blocked[k].data.clone();
                    let mut written = blocked[k].written;
                    let s = m.write(&data, &mut written);
                    blocked[k].written = written;
                    s
                } else {
                    m.read(blocked[k].size)
                };
                progressed = true;
                *reach.entry("blocked operation resumed").or_insert(0) += 1;
                match (got, want) {
                    (Poll::Ready((r, bytes)), Step::Done(w, wbytes)) => {
                        if r != w || (!blocked[k].is_write && r.is_ok() && bytes != wbytes) {
                            fail!(
                                "blocked-result",
                                "after op #{i} {op:?}: the resumed {} of op #{} returned {r:?}, the model says {w:?}",
                                if blocked[k].is_write { "write" } else { "read" },
                                blocked[k].op_index
                            );
                        }
                        blocked.remove(k);
                    }
                    (Poll::Pending, Step::Blocks) => {
                        // partial progress of a large write
                        k += 1;
                    }
                    (Poll::Ready((r, _)), Step::Blocks) => {
                        fail!("blocked-result", "after op #{i} {op:?}: the resumed operation of op #{} returned {r:?} where the model still blocks", blocked[k].op_index)
                    }
                    (Poll::Pending, Step::Done(w, _)) => {
                        fail!("blocked-result", "after op #{i} {op:?}: the resumed operation of op #{} still blocks where the model returns {w:?}", blocked[k].op_index)
                    }
                }
            }
            if !progressed {
                break;
            }
        }
    }
    None
}

pub fn shrink(h: &PHist) -> Vec<PHist> {
    let mut out = Vec::new();
    for i in 0..h.ops.len() {
        let mut ops = h.ops.clone();
        ops.remove(i);
        out.push(PHist { ops });
    }
    out
}
