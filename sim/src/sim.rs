//! The simulator core: seeded scheduler implementing the repository's
//! `Executor` seam, the hook object installed into the simulated kernel, the
//! run loop with discrete-event time, and the recorded history.

use crate::rng::{Decider, Decision, Rng, tag};
use serde::{Deserialize, Serialize};
use std::cell::{Cell, RefCell};
use std::collections::BTreeMap;
use std::future::Future;
use std::pin::Pin;
use std::rc::Rc;
use std::sync::Arc;
use std::sync::atomic::{AtomicBool, Ordering};
use std::task::{Context, Poll, Wake, Waker};
use std::time::{Duration, Instant};
use yash_env::io::Fd;
use yash_env::job::{Pid, ProcessState};
use yash_env::system::r#virtual::sim_hook::{self, SimHook};
use yash_env::system::r#virtual::{Executor, SystemState};

#[derive(Clone, Copy, Debug, Serialize, Deserialize, PartialEq, Eq)]
pub enum Strategy {
    /// Lowest task id first ("parent until it blocks, then children in
    /// creation order") - what the repository's tests see.
    Fifo,
    /// Cyclic order of task ids.
    RoundRobin,
    /// Uniformly random among the ready tasks.
    Random,
    /// PCT-style: random priorities, `d` priority change points.
    Pct(u32),
    /// FIFO, deviating to a random ready task with the given permille.
    FifoDev(u32),
}

#[derive(Clone, Debug, Serialize, Deserialize)]
pub struct SimConfig {
    pub strategy: Strategy,
    /// Probability (permille) of preempting at each preemption site.
    pub preempt_permille: u32,
    /// Probability (permille) of shortening each read/write.
    pub clamp_permille: u32,
    /// Fail the k-th (1-based) fd allocation of process `fail_alloc_pid`.
    pub fail_alloc_at: Option<u32>,
    /// Which process's allocations are counted (None = all processes).
    pub fail_alloc_pid: Option<i32>,
    /// Fail the k-th (1-based) fork with EAGAIN.
    pub fail_spawn_at: Option<u32>,
    /// Step budget of one run.
    pub max_steps: u32,
    /// Horizon used to place PCT change points.
    pub pct_horizon: u32,
    /// Record the kernel-event history (H6)?
    pub record_history: bool,
    /// Crash injection: probability (permille) per scheduler step that a
    /// running process other than the main shell is killed with SIGKILL by
    /// the environment (pid 1), at most `crash_max` times per run.
    #[serde(default)]
    pub crash_permille: u32,
    #[serde(default)]
    pub crash_max: u32,
    /// Disk faults: fail the k-th (1-based) write to a regular file (any
    /// process) with ENOSPC / the k-th and every later read from a regular
    /// file with EIO.
    #[serde(default)]
    pub fail_write_at: Option<u32>,
    #[serde(default)]
    pub fail_read_at: Option<u32>,
    /// only that one read fails (a transient error); default: that read and every later one
    #[serde(default)]
    pub fail_read_once: bool,
    /// Only reads of this process from descriptor 0 are counted (None: all).
    #[serde(default)]
    pub fail_read_stdin_of: Option<i32>,
}

impl Default for SimConfig {
    fn default() -> Self {
        SimConfig {
            strategy: Strategy::Fifo,
            preempt_permille: 0,
            clamp_permille: 0,
            fail_alloc_at: None,
            fail_alloc_pid: Some(2),
            fail_spawn_at: None,
            max_steps: 20_000,
            pct_horizon: 200,
            record_history: true,
            crash_permille: 0,
            crash_max: 0,
            fail_write_at: None,
            fail_read_at: None,
            fail_read_once: false,
            fail_read_stdin_of: None,
        }
    }
}

#[derive(Clone, Debug, Serialize, Deserialize, PartialEq, Eq)]
pub struct Ev {
    pub seq: u64,
    pub pid: i32,
    pub kind: String,
    pub a: i64,
    pub b: i64,
    #[serde(default, skip_serializing_if = "String::is_empty")]
    pub text: String,
}

/// Shared control object: implements the kernel hooks, owns the decider, the
/// history and the fault counters.
pub struct SimCtl {
    pub cfg: SimConfig,
    pub decider: RefCell<Decider>,
    seq: Cell<u64>,
    pub history: RefCell<Vec<Ev>>,
    pub counters: RefCell<BTreeMap<&'static str, u64>>,
    alloc_count: Cell<u32>,
    file_write_count: Cell<u32>,
    file_read_count: Cell<u32>,
    spawn_count: Cell<u32>,
    new_child_pids: RefCell<Vec<Pid>>,
    /// Faults are switched off when this is set (e.g. during set-up).
    pub quiet: Cell<bool>,
    /// Sequence number of the last injected fault (for bounded liveness).
    pub last_fault_step: Cell<u64>,
    pub step: Cell<u64>,
    selects_in_poll: Cell<u64>,
}

impl SimCtl {
    pub fn new(cfg: SimConfig, decider: Decider) -> Rc<Self> {
        Rc::new(SimCtl {
            cfg,
            decider: RefCell::new(decider),
            seq: Cell::new(0),
            history: RefCell::new(Vec::new()),
            counters: RefCell::new(BTreeMap::new()),
            alloc_count: Cell::new(0),
            file_write_count: Cell::new(0),
            file_read_count: Cell::new(0),
            spawn_count: Cell::new(0),
            new_child_pids: RefCell::new(Vec::new()),
            quiet: Cell::new(false),
            last_fault_step: Cell::new(0),
            step: Cell::new(0),
            selects_in_poll: Cell::new(0),
        })
    }

    pub fn next_seq(&self) -> u64 {
        let s = self.seq.get() + 1;
        self.seq.set(s);
        s
    }

    pub fn count(&self, key: &'static str) {
        *self.counters.borrow_mut().entry(key).or_insert(0) += 1;
    }

    pub fn count_n(&self, key: &'static str, n: u64) {
        *self.counters.borrow_mut().entry(key).or_insert(0) += n;
    }

    pub fn counter(&self, key: &str) -> u64 {
        self.counters.borrow().get(key).copied().unwrap_or(0)
    }

    pub fn alloc_count(&self) -> u32 {
        self.alloc_count.get()
    }

    /// Writes to / reads from regular files counted so far (fault positions).
    pub fn file_io_counts(&self) -> (u32, u32) {
        (self.file_write_count.get(), self.file_read_count.get())
    }

    /// Appends a record to the history (used by probes and by the kernel hooks).
    pub fn record(&self, pid: i32, kind: &str, a: i64, b: i64, text: &str) {
        if !self.cfg.record_history {
            return;
        }
        let seq = self.next_seq();
        self.history.borrow_mut().push(Ev {
            seq,
            pid,
            kind: kind.to_string(),
            a,
            b,
            text: text.to_string(),
        });
    }

    fn fault(&self) {
        self.last_fault_step.set(self.step.get());
    }
}

impl SimHook for SimCtl {
    fn preempt(&self, _pid: Pid, site: &'static str) -> bool {
        if self.quiet.get() {
            return false;
        }
        let yes = self
            .decider
            .borrow_mut()
            .chance(tag::PREEMPT, self.cfg.preempt_permille);
        if std::env::var_os("VERIF_TRACE_PREEMPT").is_some() {
            eprintln!("preempt? pid={} site={site} -> {yes}", _pid.0);
        }
        if yes {
            self.count("preempt");
            self.count(match site {
                "read" => "preempt@read",
                "write" => "preempt@write",
                "open" => "preempt@open",
                "kill" => "preempt@kill",
                "sigmask" => "preempt@sigmask",
                "wait_for_subshell" => "preempt@wait_for_subshell",
                "wait_builtin" => "preempt@wait_builtin",
                "subshell_start" => "preempt@subshell_start",
                _ => "preempt@other",
            });
            self.fault();
        }
        yes
    }

    fn clamp(&self, _pid: Pid, _fd: Fd, is_write: bool, len: usize, _is_fifo: bool) -> usize {
        if self.quiet.get() {
            return len;
        }
        let mut d = self.decider.borrow_mut();
        if !d.chance(tag::CLAMP, self.cfg.clamp_permille) {
            return len;
        }
        // Bias towards 1 and towards len-1.
        let n = len as u32;
        let v = d.decide(tag::CLAMP, n, |r| match r.below(4) {
            0 => 0,
            1 => n.saturating_sub(2),
            _ => r.below(n),
        }) as usize
            + 1;
        drop(d);
        if v < len {
            self.count(if is_write { "short_write" } else { "short_read" });
            self.fault();
        }
        v.min(len)
    }

    fn fail_fd_alloc(&self, pid: Pid, _site: &'static str) -> bool {
        if self.quiet.get() {
            return false;
        }
        if let Some(p) = self.cfg.fail_alloc_pid
            && p != pid.0
        {
            return false;
        }
        let k = self.alloc_count.get() + 1;
        self.alloc_count.set(k);
        if self.cfg.fail_alloc_at == Some(k) {
            self.count("emfile");
            self.fault();
            self.record(pid.0, "emfile", k as i64, 0, _site);
            true
        } else {
            false
        }
    }

    fn fail_io(&self, pid: Pid, fd: yash_env::io::Fd, is_write: bool) -> Option<yash_env::system::Errno> {
        if self.quiet.get() {
            return None;
        }
        if is_write {
            let k = self.file_write_count.get() + 1;
            self.file_write_count.set(k);
            if self.cfg.fail_write_at == Some(k) {
                self.count("enospc");
                self.fault();
                self.record(pid.0, "enospc", k as i64, fd.0 as i64, "");
                return Some(yash_env::system::Errno::ENOSPC);
            }
        } else {
            if let Some(p) = self.cfg.fail_read_stdin_of
                && (p != pid.0 || fd.0 != 0)
            {
                return None;
            }
            let k = self.file_read_count.get() + 1;
            self.file_read_count.set(k);
            // (the device is gone: this read and every later one fail)
            if self.cfg.fail_read_at.is_some_and(|at| if self.cfg.fail_read_once { k == at } else { k >= at }) {
                self.count("eio");
                self.fault();
                self.record(pid.0, "eio", k as i64, fd.0 as i64, "");
                return Some(yash_env::system::Errno::EIO);
            }
        }
        None
    }

    fn event(&self, pid: Pid, kind: &'static str, a: i64, b: i64) {
        if kind == "select" {
            // not part of the history; only a liveness guard
            let n = self.selects_in_poll.get() + 1;
            self.selects_in_poll.set(n);
            if n > 300_000 {
                panic!("livelock: process {pid} polled select {n} times without yielding to the scheduler");
            }
            return;
        }
        if kind == "fork" {
            self.new_child_pids.borrow_mut().push(Pid(a as i32));
        }
        match kind {
            "read" => self.count_n("bytes_read", b as u64),
            "write" => self.count_n("bytes_written", b as u64),
            _ => {}
        }
        self.record(pid.0, kind, a, b, "");
    }
}

struct WakeFlag(AtomicBool);

impl Wake for WakeFlag {
    fn wake(self: Arc<Self>) {
        self.0.store(true, Ordering::Relaxed);
    }
    fn wake_by_ref(self: &Arc<Self>) {
        self.0.store(true, Ordering::Relaxed);
    }
}

type Task = Pin<Box<dyn Future<Output = ()>>>;

/// The `Executor` handed to the simulated kernel. `spawn` only queues the
/// task; the run loop adopts it after the current poll.
pub struct Spawner {
    queue: Rc<RefCell<Vec<Task>>>,
    ctl: Rc<SimCtl>,
}

impl std::fmt::Debug for Spawner {
    fn fmt(&self, f: &mut std::fmt::Formatter<'_>) -> std::fmt::Result {
        f.write_str("yash_sim::Spawner")
    }
}

impl Executor for Spawner {
    fn spawn(&self, task: Task) -> Result<(), Box<dyn std::error::Error>> {
        let k = self.ctl.spawn_count.get() + 1;
        self.ctl.spawn_count.set(k);
        if !self.ctl.quiet.get() && self.ctl.cfg.fail_spawn_at == Some(k) {
            self.ctl.count("eagain_fork");
            self.ctl.fault();
            return Err("simulated EAGAIN".into());
        }
        self.queue.borrow_mut().push(task);
        Ok(())
    }
}

struct Slot {
    fut: Option<Task>,
    flag: Arc<WakeFlag>,
    pid: Option<Pid>,
    prio: u32,
    polls: u64,
}

#[derive(Clone, Debug, Default, Serialize, Deserialize, PartialEq, Eq)]
pub struct ProcInfo {
    pub pid: i32,
    pub ppid: i32,
    /// "running", "stopped", "exited:N", "signaled:N"
    pub state: String,
    pub unreaped: bool,
    pub task_done: bool,
    /// diagnostic only (not part of any digest): descriptors of a process that
    /// is still running, as `fd:ofd-serial[n=non-blocking][fifo content length]`
    #[serde(default)]
    pub fds: String,
}

#[derive(Clone, Debug, Default, Serialize, Deserialize)]
pub struct RunOutcome {
    pub steps: u64,
    /// The main task (pid 2) completed.
    pub main_done: bool,
    /// No runnable task and no timer while some task is unfinished.
    pub stalled: bool,
    pub budget_exhausted: bool,
    pub panic: Option<String>,
    pub procs: Vec<ProcInfo>,
    /// Hash over the sequence of (task id) picks - identifies the interleaving.
    pub schedule_hash: u64,
    /// Number of scheduling points that had at least two ready tasks.
    pub choice_points: u32,
    pub sim_time_ms: u64,
    pub tasks: u32,
}

pub struct Sim {
    pub ctl: Rc<SimCtl>,
    pub state: Rc<RefCell<SystemState>>,
    queue: Rc<RefCell<Vec<Task>>>,
    slots: Vec<Slot>,
    last_run: usize,
    base: Instant,
    pct_points: Vec<u64>,
    pct_low: u32,
}

pub fn state_name(s: ProcessState) -> String {
    match s {
        ProcessState::Running => "running".into(),
        ProcessState::Halted(r) => {
            use yash_env::job::ProcessResult::*;
            match r {
                Stopped(sig) => format!("stopped:{}", sig.as_raw()),
                Exited(st) => format!("exited:{}", st.0),
                Signaled { signal, .. } => format!("signaled:{}", signal.as_raw()),
            }
        }
    }
}

impl Sim {
    /// Creates the simulator around an existing system state and installs the
    /// executor seam, the clock and the kernel hooks.
    pub fn new(state: Rc<RefCell<SystemState>>, cfg: SimConfig, decider: Decider) -> Sim {
        let ctl = SimCtl::new(cfg, decider);
        let queue: Rc<RefCell<Vec<Task>>> = Rc::new(RefCell::new(Vec::new()));
        let base = Instant::now();
        {
            let mut st = state.borrow_mut();
            st.executor = Some(Rc::new(Spawner {
                queue: Rc::clone(&queue),
                ctl: Rc::clone(&ctl),
            }));
            st.now = Some(base);
        }
        sim_hook::install(Some(Rc::clone(&ctl) as Rc<dyn SimHook>));
        let mut sim = Sim {
            ctl,
            state,
            queue,
            slots: Vec::new(),
            last_run: 0,
            base,
            pct_points: Vec::new(),
            pct_low: 0,
        };
        if let Strategy::Pct(d) = sim.ctl.cfg.strategy {
            let horizon = sim.ctl.cfg.pct_horizon.max(1);
            let mut dec = sim.ctl.decider.borrow_mut();
            for _ in 0..d {
                let p = dec.choose(tag::MISC, horizon) as u64;
                sim.pct_points.push(p);
            }
        }
        sim
    }

    /// Adds a top-level task (a process that exists from the start).
    pub fn add_task(&mut self, pid: Pid, task: Task) {
        let prio = self.draw_prio();
        self.slots.push(Slot {
            fut: Some(task),
            flag: Arc::new(WakeFlag(AtomicBool::new(true))),
            pid: Some(pid),
            prio,
            polls: 0,
        });
    }

    fn draw_prio(&mut self) -> u32 {
        match self.ctl.cfg.strategy {
            Strategy::Pct(_) => self.ctl.decider.borrow_mut().choose(tag::MISC, 1 << 20) + 1000,
            _ => 0,
        }
    }

    fn adopt_new_tasks(&mut self) {
        let new: Vec<Task> = std::mem::take(&mut *self.queue.borrow_mut());
        if new.is_empty() {
            return;
        }
        let pids: Vec<Pid> = std::mem::take(&mut *self.ctl.new_child_pids.borrow_mut());
        // Every successful spawn is followed by exactly one fork event.
        assert_eq!(new.len(), pids.len(), "spawned tasks and fork events differ");
        for (task, pid) in new.into_iter().zip(pids) {
            let prio = self.draw_prio();
            self.slots.push(Slot {
                fut: Some(task),
                flag: Arc::new(WakeFlag(AtomicBool::new(true))),
                pid: Some(pid),
                prio,
                polls: 0,
            });
        }
    }

    pub fn now_ms(&self) -> u64 {
        let now = self.state.borrow().now.unwrap();
        now.duration_since(self.base).as_millis() as u64
    }

    pub fn task_done(&self, pid: Pid) -> bool {
        self.slots
            .iter()
            .any(|s| s.pid == Some(pid) && s.fut.is_none())
    }

    /// Runs until nothing is runnable. `env` is called before every scheduling
    /// step and may inject environment events (signals etc.); it returns false
    /// to stop the run early.
    pub fn run(&mut self, mut env: impl FnMut(&mut Sim, u64) -> bool) -> RunOutcome {
        let mut out = RunOutcome::default();
        let mut hash: u64 = 0xcbf2_9ce4_8422_2325;
        let mut step: u64 = 0;
        let max_steps = self.ctl.cfg.max_steps as u64;
        loop {
            self.adopt_new_tasks();
            self.ctl.step.set(step);
            if !env(self, step) {
                break;
            }
            let ready: Vec<usize> = self
                .slots
                .iter()
                .enumerate()
                .filter(|(_, s)| s.fut.is_some() && s.flag.0.load(Ordering::Relaxed))
                .map(|(i, _)| i)
                .collect();
            if ready.is_empty() {
                // Discrete-event time: jump to the next timer.
                let next = self.state.borrow().scheduled_wakers.next_wake_time();
                if let Some(t) = next {
                    let mut st = self.state.borrow_mut();
                    let t = t.max(st.now.unwrap());
                    st.advance_time(t + Duration::from_nanos(0));
                    drop(st);
                    self.ctl.count("clock_jump");
                    // Guard against a timer that never gets consumed.
                    step += 1;
                    if step > max_steps {
                        out.budget_exhausted = true;
                        break;
                    }
                    continue;
                }
                out.stalled = self.slots.iter().any(|s| s.fut.is_some());
                break;
            }
            if step >= max_steps {
                out.budget_exhausted = true;
                break;
            }
            let pick = self.pick(&ready, step, &mut out);
            let idx = ready[pick];
            self.last_run = idx;
            hash = crate::rng::fnv_combine(hash, idx as u64);
            step += 1;

            let slot = &mut self.slots[idx];
            slot.flag.0.store(false, Ordering::Relaxed);
            slot.polls += 1;
            let waker = Waker::from(Arc::clone(&slot.flag));
            let mut cx = Context::from_waker(&waker);
            sim_hook::set_current_pid(slot.pid);
            self.ctl.selects_in_poll.set(0);
            let fut = slot.fut.as_mut().unwrap();
            let poll = fut.as_mut().poll(&mut cx);
            sim_hook::set_current_pid(None);
            if poll.is_ready() {
                let pid = self.slots[idx].pid.map_or(-1, |p| p.0);
                self.slots[idx].fut = None;
                self.ctl.record(pid, "task_done", 0, 0, "");
            }
        }
        self.adopt_new_tasks();
        out.steps = step;
        out.schedule_hash = hash;
        out.sim_time_ms = self.now_ms();
        out.tasks = self.slots.len() as u32;
        out.main_done = self.slots.first().is_some_and(|s| s.fut.is_none());
        out.procs = self.proc_table();
        out
    }

    fn pick(&mut self, ready: &[usize], step: u64, out: &mut RunOutcome) -> usize {
        let n = ready.len() as u32;
        if n == 1 {
            return 0;
        }
        out.choice_points += 1;
        let strategy = self.ctl.cfg.strategy;
        let last = self.last_run;
        let slots = &self.slots;
        let pct_hit = matches!(strategy, Strategy::Pct(_)) && self.pct_points.contains(&step);
        let mut lowered: Option<usize> = None;
        let pct_low = self.pct_low;
        let v = self
            .ctl
            .decider
            .borrow_mut()
            .decide(tag::SCHED, n, |rng: &mut Rng| match strategy {
                Strategy::Fifo => 0,
                Strategy::RoundRobin => ready
                    .iter()
                    .position(|&i| i > last)
                    .unwrap_or(0) as u32,
                Strategy::Random => rng.below(n),
                Strategy::FifoDev(p) => {
                    if rng.chance(p) {
                        rng.below(n)
                    } else {
                        0
                    }
                }
                Strategy::Pct(_) => {
                    let best = |skip: Option<usize>| {
                        ready
                            .iter()
                            .enumerate()
                            .filter(|(_, i)| Some(**i) != skip)
                            .max_by_key(|(_, i)| (slots[**i].prio, u32::MAX - **i as u32))
                            .map(|(k, _)| k)
                            .unwrap()
                    };
                    let b = best(None);
                    if pct_hit {
                        lowered = Some(ready[b]);
                        best(Some(ready[b])) as u32
                    } else {
                        b as u32
                    }
                }
            });
        if let Some(i) = lowered {
            self.slots[i].prio = 999u32.saturating_sub(pct_low);
            self.pct_low += 1;
        }
        v as usize
    }

    pub fn proc_table(&self) -> Vec<ProcInfo> {
        let st = self.state.borrow();
        st.processes
            .iter()
            .map(|(pid, p)| ProcInfo {
                pid: pid.0,
                ppid: p.ppid().0,
                state: state_name(p.state()),
                unreaped: p.state_has_changed(),
                task_done: self.task_done(*pid),
                fds: if matches!(p.state(), yash_env::job::ProcessState::Running) {
                    p.fds()
                        .iter()
                        .map(|(fd, b)| {
                            let o = b.open_file_description.borrow();
                            let fifo = match &o.inode().borrow().body {
                                yash_env::system::r#virtual::FileBody::Fifo { content, .. } => {
                                    format!("[fifo {}]", content.len())
                                }
                                _ => String::new(),
                            };
                            format!(
                                "{}:#{}{}{}",
                                fd.0,
                                o.serial(),
                                if o.is_nonblocking() { "n" } else { "" },
                                fifo
                            )
                        })
                        .collect::<Vec<_>>()
                        .join(" ")
                } else {
                    String::new()
                },
            })
            .collect()
    }

    pub fn decisions(&self) -> Vec<Decision> {
        self.ctl.decider.borrow().log.clone()
    }
}

impl Drop for Sim {
    fn drop(&mut self) {
        // Drop the tasks (and with them every Rc into the system state) before
        // removing the hooks; break the state -> executor -> queue cycle.
        self.slots.clear();
        self.queue.borrow_mut().clear();
        if let Ok(mut st) = self.state.try_borrow_mut() {
            st.executor = None;
        }
        sim_hook::install(None);
    }
}

/// Runs `f`, converting a panic into an error string (the default panic
/// message is suppressed; the message and location are captured instead).
pub fn catch<T>(f: impl FnOnce() -> T) -> Result<T, String> {
    use std::panic;
    thread_local! { static LAST: RefCell<Option<String>> = const { RefCell::new(None) }; }
    static INIT: std::sync::Once = std::sync::Once::new();
    INIT.call_once(|| {
        panic::set_hook(Box::new(|info| {
            let msg = if let Some(s) = info.payload().downcast_ref::<&str>() {
                s.to_string()
            } else if let Some(s) = info.payload().downcast_ref::<String>() {
                s.clone()
            } else {
                "<non-string panic>".to_string()
            };
            let loc = info
                .location()
                .map(|l| format!("{}:{}", l.file(), l.line()))
                .unwrap_or_default();
            LAST.with(|l| *l.borrow_mut() = Some(format!("{msg} @ {loc}")));
        }));
    });
    match panic::catch_unwind(panic::AssertUnwindSafe(f)) {
        Ok(v) => Ok(v),
        Err(_) => {
            sim_hook::install(None);
            Err(LAST
                .with(|l| l.borrow_mut().take())
                .unwrap_or_else(|| "panic".into()))
        }
    }
}
