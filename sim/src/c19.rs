//! C19 - the simulated OS and the real OS give the shell the same observable
//! behaviour.
//!
//! Programs are first shown schedule-independent BY THE SIMULATOR (FIFO + seeded
//! schedules with preemption must all give one outcome); only those are run on
//! the real kernel (same shell glue and probes on `RealSystem`, in a scratch
//! directory, twice) and compared: stdout, exit status, file tree.

use crate::harness::{Failure, Prop, Stats, Tier, hash_str};
use crate::rng::{Decider, Decision, Rng};
use crate::shellrun::{Observed, ScriptSpec, Viol, check_liveness, obs_digest, run_script};
use crate::sim::{SimConfig, Strategy};
use serde::{Deserialize, Serialize};
use serde_json::{Value, json};
use std::collections::BTreeMap;
use std::io::Read as _;
use std::os::unix::fs::PermissionsExt as _;
use std::process::{Command, Stdio};
use std::sync::atomic::{AtomicU64, Ordering};

#[derive(Clone, Debug, Serialize, Deserialize)]
pub struct Case {
    pub lines: Vec<String>,
    /// feature name of each line (parallel to `lines`; "" for prelude/ending)
    pub tags: Vec<String>,
    pub features: Vec<String>,
}

/// (relative path, Some(content) for files / None for directories, mode)
fn initial_tree() -> Vec<(&'static str, Option<&'static [u8]>, u32)> {
    vec![
        ("e1", Some(b"e1 line1\ne1 line2\n"), 0o644),
        ("e2.txt", Some(b"two\n"), 0o644),
        ("d", None, 0o755),
        ("d/a.txt", Some(b"da\n"), 0o644),
        ("d/b", Some(b"db\n"), 0o600),
        ("d/sub", None, 0o755),
        ("d/sub/deep.txt", Some(b"deep\n"), 0o644),
        ("empty", None, 0o755),
        (".hid", Some(b"hidden\n"), 0o644),
        // names whose order depends on how they are compared
        ("B", Some(b"B\n"), 0o644),
        ("a9", Some(b"a9\n"), 0o644),
        ("a10", Some(b"a10\n"), 0o644),
        ("Zz", Some(b"Zz\n"), 0o644),
        ("\u{e9}t\u{e9}", Some(b"ete\n"), 0o644),
        ("_u", Some(b"_u\n"), 0o644),
        ("d/.dh", Some(b"dh\n"), 0o644),
        // a directory whose absolute path is longer than 1024 bytes
        ("zlong", None, 0o755),
        ("zlong/Lxxxxxxxxxxxxxxxxxxxxxxxxxxxxxxxxxxxxxxxxxxxxxxxxxxxxxxxxxxxxxxxxxxxxxxxxxxxxxxxxxxxxxxxxxxxxxxxxxxxxxxxxxxxxxxxxxxxxxxxxxxxxxxxxxxxxxxxxxxxxxxxxxxxxxxxxxxxxxxxxxxxxxxxxxxxxxxxxxxxxxxxxxxxxxxxxxxxxxxx", None, 0o755),
        ("zlong/Lxxxxxxxxxxxxxxxxxxxxxxxxxxxxxxxxxxxxxxxxxxxxxxxxxxxxxxxxxxxxxxxxxxxxxxxxxxxxxxxxxxxxxxxxxxxxxxxxxxxxxxxxxxxxxxxxxxxxxxxxxxxxxxxxxxxxxxxxxxxxxxxxxxxxxxxxxxxxxxxxxxxxxxxxxxxxxxxxxxxxxxxxxxxxxxxxxxxxxxx/Lxxxxxxxxxxxxxxxxxxxxxxxxxxxxxxxxxxxxxxxxxxxxxxxxxxxxxxxxxxxxxxxxxxxxxxxxxxxxxxxxxxxxxxxxxxxxxxxxxxxxxxxxxxxxxxxxxxxxxxxxxxxxxxxxxxxxxxxxxxxxxxxxxxxxxxxxxxxxxxxxxxxxxxxxxxxxxxxxxxxxxxxxxxxxxxxxxxxxxxx", None, 0o755),
        ("zlong/Lxxxxxxxxxxxxxxxxxxxxxxxxxxxxxxxxxxxxxxxxxxxxxxxxxxxxxxxxxxxxxxxxxxxxxxxxxxxxxxxxxxxxxxxxxxxxxxxxxxxxxxxxxxxxxxxxxxxxxxxxxxxxxxxxxxxxxxxxxxxxxxxxxxxxxxxxxxxxxxxxxxxxxxxxxxxxxxxxxxxxxxxxxxxxxxxxxxxxxxx/Lxxxxxxxxxxxxxxxxxxxxxxxxxxxxxxxxxxxxxxxxxxxxxxxxxxxxxxxxxxxxxxxxxxxxxxxxxxxxxxxxxxxxxxxxxxxxxxxxxxxxxxxxxxxxxxxxxxxxxxxxxxxxxxxxxxxxxxxxxxxxxxxxxxxxxxxxxxxxxxxxxxxxxxxxxxxxxxxxxxxxxxxxxxxxxxxxxxxxxxx/Lxxxxxxxxxxxxxxxxxxxxxxxxxxxxxxxxxxxxxxxxxxxxxxxxxxxxxxxxxxxxxxxxxxxxxxxxxxxxxxxxxxxxxxxxxxxxxxxxxxxxxxxxxxxxxxxxxxxxxxxxxxxxxxxxxxxxxxxxxxxxxxxxxxxxxxxxxxxxxxxxxxxxxxxxxxxxxxxxxxxxxxxxxxxxxxxxxxxxxxx", None, 0o755),
        ("zlong/Lxxxxxxxxxxxxxxxxxxxxxxxxxxxxxxxxxxxxxxxxxxxxxxxxxxxxxxxxxxxxxxxxxxxxxxxxxxxxxxxxxxxxxxxxxxxxxxxxxxxxxxxxxxxxxxxxxxxxxxxxxxxxxxxxxxxxxxxxxxxxxxxxxxxxxxxxxxxxxxxxxxxxxxxxxxxxxxxxxxxxxxxxxxxxxxxxxxxxxxx/Lxxxxxxxxxxxxxxxxxxxxxxxxxxxxxxxxxxxxxxxxxxxxxxxxxxxxxxxxxxxxxxxxxxxxxxxxxxxxxxxxxxxxxxxxxxxxxxxxxxxxxxxxxxxxxxxxxxxxxxxxxxxxxxxxxxxxxxxxxxxxxxxxxxxxxxxxxxxxxxxxxxxxxxxxxxxxxxxxxxxxxxxxxxxxxxxxxxxxxxx/Lxxxxxxxxxxxxxxxxxxxxxxxxxxxxxxxxxxxxxxxxxxxxxxxxxxxxxxxxxxxxxxxxxxxxxxxxxxxxxxxxxxxxxxxxxxxxxxxxxxxxxxxxxxxxxxxxxxxxxxxxxxxxxxxxxxxxxxxxxxxxxxxxxxxxxxxxxxxxxxxxxxxxxxxxxxxxxxxxxxxxxxxxxxxxxxxxxxxxxxx/Lxxxxxxxxxxxxxxxxxxxxxxxxxxxxxxxxxxxxxxxxxxxxxxxxxxxxxxxxxxxxxxxxxxxxxxxxxxxxxxxxxxxxxxxxxxxxxxxxxxxxxxxxxxxxxxxxxxxxxxxxxxxxxxxxxxxxxxxxxxxxxxxxxxxxxxxxxxxxxxxxxxxxxxxxxxxxxxxxxxxxxxxxxxxxxxxxxxxxxxx", None, 0o755),
        ("zlong/Lxxxxxxxxxxxxxxxxxxxxxxxxxxxxxxxxxxxxxxxxxxxxxxxxxxxxxxxxxxxxxxxxxxxxxxxxxxxxxxxxxxxxxxxxxxxxxxxxxxxxxxxxxxxxxxxxxxxxxxxxxxxxxxxxxxxxxxxxxxxxxxxxxxxxxxxxxxxxxxxxxxxxxxxxxxxxxxxxxxxxxxxxxxxxxxxxxxxxxxx/Lxxxxxxxxxxxxxxxxxxxxxxxxxxxxxxxxxxxxxxxxxxxxxxxxxxxxxxxxxxxxxxxxxxxxxxxxxxxxxxxxxxxxxxxxxxxxxxxxxxxxxxxxxxxxxxxxxxxxxxxxxxxxxxxxxxxxxxxxxxxxxxxxxxxxxxxxxxxxxxxxxxxxxxxxxxxxxxxxxxxxxxxxxxxxxxxxxxxxxxx/Lxxxxxxxxxxxxxxxxxxxxxxxxxxxxxxxxxxxxxxxxxxxxxxxxxxxxxxxxxxxxxxxxxxxxxxxxxxxxxxxxxxxxxxxxxxxxxxxxxxxxxxxxxxxxxxxxxxxxxxxxxxxxxxxxxxxxxxxxxxxxxxxxxxxxxxxxxxxxxxxxxxxxxxxxxxxxxxxxxxxxxxxxxxxxxxxxxxxxxxx/Lxxxxxxxxxxxxxxxxxxxxxxxxxxxxxxxxxxxxxxxxxxxxxxxxxxxxxxxxxxxxxxxxxxxxxxxxxxxxxxxxxxxxxxxxxxxxxxxxxxxxxxxxxxxxxxxxxxxxxxxxxxxxxxxxxxxxxxxxxxxxxxxxxxxxxxxxxxxxxxxxxxxxxxxxxxxxxxxxxxxxxxxxxxxxxxxxxxxxxxx/Lxxxxxxxxxxxxxxxxxxxxxxxxxxxxxxxxxxxxxxxxxxxxxxxxxxxxxxxxxxxxxxxxxxxxxxxxxxxxxxxxxxxxxxxxxxxxxxxxxxxxxxxxxxxxxxxxxxxxxxxxxxxxxxxxxxxxxxxxxxxxxxxxxxxxxxxxxxxxxxxxxxxxxxxxxxxxxxxxxxxxxxxxxxxxxxxxxxxxxxx", None, 0o755),
        ("zlong/Lxxxxxxxxxxxxxxxxxxxxxxxxxxxxxxxxxxxxxxxxxxxxxxxxxxxxxxxxxxxxxxxxxxxxxxxxxxxxxxxxxxxxxxxxxxxxxxxxxxxxxxxxxxxxxxxxxxxxxxxxxxxxxxxxxxxxxxxxxxxxxxxxxxxxxxxxxxxxxxxxxxxxxxxxxxxxxxxxxxxxxxxxxxxxxxxxxxxxxxx/Lxxxxxxxxxxxxxxxxxxxxxxxxxxxxxxxxxxxxxxxxxxxxxxxxxxxxxxxxxxxxxxxxxxxxxxxxxxxxxxxxxxxxxxxxxxxxxxxxxxxxxxxxxxxxxxxxxxxxxxxxxxxxxxxxxxxxxxxxxxxxxxxxxxxxxxxxxxxxxxxxxxxxxxxxxxxxxxxxxxxxxxxxxxxxxxxxxxxxxxx/Lxxxxxxxxxxxxxxxxxxxxxxxxxxxxxxxxxxxxxxxxxxxxxxxxxxxxxxxxxxxxxxxxxxxxxxxxxxxxxxxxxxxxxxxxxxxxxxxxxxxxxxxxxxxxxxxxxxxxxxxxxxxxxxxxxxxxxxxxxxxxxxxxxxxxxxxxxxxxxxxxxxxxxxxxxxxxxxxxxxxxxxxxxxxxxxxxxxxxxxx/Lxxxxxxxxxxxxxxxxxxxxxxxxxxxxxxxxxxxxxxxxxxxxxxxxxxxxxxxxxxxxxxxxxxxxxxxxxxxxxxxxxxxxxxxxxxxxxxxxxxxxxxxxxxxxxxxxxxxxxxxxxxxxxxxxxxxxxxxxxxxxxxxxxxxxxxxxxxxxxxxxxxxxxxxxxxxxxxxxxxxxxxxxxxxxxxxxxxxxxxx/Lxxxxxxxxxxxxxxxxxxxxxxxxxxxxxxxxxxxxxxxxxxxxxxxxxxxxxxxxxxxxxxxxxxxxxxxxxxxxxxxxxxxxxxxxxxxxxxxxxxxxxxxxxxxxxxxxxxxxxxxxxxxxxxxxxxxxxxxxxxxxxxxxxxxxxxxxxxxxxxxxxxxxxxxxxxxxxxxxxxxxxxxxxxxxxxxxxxxxxxx/Lxxxxxxxxxxxxxxxxxxxxxxxxxxxxxxxxxxxxxxxxxxxxxxxxxxxxxxxxxxxxxxxxxxxxxxxxxxxxxxxxxxxxxxxxxxxxxxxxxxxxxxxxxxxxxxxxxxxxxxxxxxxxxxxxxxxxxxxxxxxxxxxxxxxxxxxxxxxxxxxxxxxxxxxxxxxxxxxxxxxxxxxxxxxxxxxxxxxxxxx", None, 0o755),
    ]
}

/// Relative path of the deepest of those directories.
const LONG_DIR: &str = "zlong/Lxxxxxxxxxxxxxxxxxxxxxxxxxxxxxxxxxxxxxxxxxxxxxxxxxxxxxxxxxxxxxxxxxxxxxxxxxxxxxxxxxxxxxxxxxxxxxxxxxxxxxxxxxxxxxxxxxxxxxxxxxxxxxxxxxxxxxxxxxxxxxxxxxxxxxxxxxxxxxxxxxxxxxxxxxxxxxxxxxxxxxxxxxxxxxxxxxxxxxxx/Lxxxxxxxxxxxxxxxxxxxxxxxxxxxxxxxxxxxxxxxxxxxxxxxxxxxxxxxxxxxxxxxxxxxxxxxxxxxxxxxxxxxxxxxxxxxxxxxxxxxxxxxxxxxxxxxxxxxxxxxxxxxxxxxxxxxxxxxxxxxxxxxxxxxxxxxxxxxxxxxxxxxxxxxxxxxxxxxxxxxxxxxxxxxxxxxxxxxxxxx/Lxxxxxxxxxxxxxxxxxxxxxxxxxxxxxxxxxxxxxxxxxxxxxxxxxxxxxxxxxxxxxxxxxxxxxxxxxxxxxxxxxxxxxxxxxxxxxxxxxxxxxxxxxxxxxxxxxxxxxxxxxxxxxxxxxxxxxxxxxxxxxxxxxxxxxxxxxxxxxxxxxxxxxxxxxxxxxxxxxxxxxxxxxxxxxxxxxxxxxxx/Lxxxxxxxxxxxxxxxxxxxxxxxxxxxxxxxxxxxxxxxxxxxxxxxxxxxxxxxxxxxxxxxxxxxxxxxxxxxxxxxxxxxxxxxxxxxxxxxxxxxxxxxxxxxxxxxxxxxxxxxxxxxxxxxxxxxxxxxxxxxxxxxxxxxxxxxxxxxxxxxxxxxxxxxxxxxxxxxxxxxxxxxxxxxxxxxxxxxxxxx/Lxxxxxxxxxxxxxxxxxxxxxxxxxxxxxxxxxxxxxxxxxxxxxxxxxxxxxxxxxxxxxxxxxxxxxxxxxxxxxxxxxxxxxxxxxxxxxxxxxxxxxxxxxxxxxxxxxxxxxxxxxxxxxxxxxxxxxxxxxxxxxxxxxxxxxxxxxxxxxxxxxxxxxxxxxxxxxxxxxxxxxxxxxxxxxxxxxxxxxxx/Lxxxxxxxxxxxxxxxxxxxxxxxxxxxxxxxxxxxxxxxxxxxxxxxxxxxxxxxxxxxxxxxxxxxxxxxxxxxxxxxxxxxxxxxxxxxxxxxxxxxxxxxxxxxxxxxxxxxxxxxxxxxxxxxxxxxxxxxxxxxxxxxxxxxxxxxxxxxxxxxxxxxxxxxxxxxxxxxxxxxxxxxxxxxxxxxxxxxxxxx";

/// symbolic links (path, target) and named pipes of the initial tree
fn initial_links() -> Vec<(&'static str, &'static str)> {
    vec![("lnk", "e1"), ("dlnk", "d"), ("broken", "nowhere")]
}
const FIFO: &str = "fifo";

/// Every kind of command the generator knows, instantiated for item number k.
fn variants(rng: &mut Rng, k: u32) -> Vec<(&'static str, String)> {
    let f = |rng: &mut Rng| rng.pick(&["f1", "f2", "e1", "d/x", "e2.txt"]).to_string();
    let fd = rng.range(3, 5);
    let big: String = (0..400).map(|i| format!("line {i} of the here-document {k}\n")).collect();
    vec![
        ("redir-write", format!("echo w{k} >{}", f(rng))),
        ("redir-write", format!("echo w{k} >{}; echo v{k} >{}", f(rng), f(rng))),
        ("redir-append", format!("echo w{k} >>{}", f(rng))),
        ("redir-clobber", format!("echo w{k} >|{}", f(rng))),
        ("noclobber", if rng.bool() { "set -C".into() } else { "set +C".into() }),
        ("cat", format!("cat {}; echo \"?=$?\"", rng.pick(&["e1", "f1", "f2", "d/a.txt", "d/x"]))),
        ("glob", format!("echo {}", rng.pick(&["*", "d/*", "*.txt", "f?", "nomatch*", "d/*/*", "e*", "[de]*", "d/s*/"]))),
        ("symlink-dir-prefix", format!("echo {}", rng.pick(&["*/", "*/*"]))),
        ("exec-fd", format!("exec 3>{}; echo w{k} >&3; echo v{k} >&3; exec 3>&-", rng.pick(&["f1", "f2"]))),
        ("closed-fd", format!("echo w{k} >&7; echo \"?=$?\"")),
        ("read-file", "read a b <e1; echo \"[$a][$b] ?=$?\"".to_string()),
        ("pipeline", format!("echo w{k} | relay 3 | cat; echo \"?=$?\"")),
        ("cmdsubst", "v=$(cat e1; rc 3); echo \"$v ?=$?\"".to_string()),
        ("subshell-cd", format!("( cd d; echo *; echo w{k} >sub_f{k} ); echo \"?=$?\"; echo d/*")),
        ("cd", "cd d; echo *; cd ..; echo \"?=$?\"".to_string()),
        ("cd-missing", "cd nodir; echo \"?=$?\"".to_string()),
        ("empty-path", "cat <\"\"; echo \"?=$?\"; ( exec 3<\"\"; echo in ); echo \"?=$?\"; echo x >\"\"; echo \"?=$?\"".to_string()),
        ("dotdot-after-file", "cat <e1/../e1; echo \"?=$?\"; echo e1/../* e1/./*; cat <e1/.; echo \"?=$?\"".to_string()),
        ("cd-physical", "cd -P ./d/./sub/..; echo \"?=$? ${PWD##*/}\"; pwd -P >p.txt; read p <p.txt; echo \"${p##*/}\"; cd -P ..; echo \"${PWD##*/}\"".to_string()),
        ("cd-pwd", "cd d/sub/..//sub/; echo \"${PWD##*/} ?=$?\"; cd - >|discarded; echo \"${PWD##*/}|${OLDPWD##*/}\"; cd \"$OLDPWD/..\"; echo *; cd ..".to_string()),
        ("cd-pwd", "cd ./d/.; pwd >p.txt; read p <p.txt; echo \"${p##*/}\"; cd ..; cd d/sub; cd ../../d; echo \"${PWD##*/} ?=$?\"; cd ..".to_string()),
        ("cd-pwd", "cd d; cd ../e1; echo \"?=$?\"; cd ../nodir/..; echo \"?=$? ${PWD##*/}\"; cd ..".to_string()),
        ("source", format!("echo 'echo sourced{k}; return 5; echo NEVER' >s{k}.sh; . ./s{k}.sh; echo \"?=$?\"; command . ./missing.sh; echo \"?=$?\"")),
("emfile-no-side-effect", format!("( ulimit -n 3; echo x >|nf{k}; echo y >|e1; echo z >>e2.txt ); echo \"?=$?\"; echo nf*; cat e1 e2.txt")),
        ("ulimit-nofile", "( ulimit -n 6; ulimit -n; exec 3>|f1 4>|f2 5>|f3; echo \"?=$?\"; exec 6>|f1; echo \"?=$?\" ); echo \"?=$?\"".to_string()),
        ("read-opts", "read -r a b <<'EOF'\n  x\\ty   z \\\nEOF\necho \"[$a][$b] ?=$?\"; read a b <<'EOF'\none\\\ntwo three\nEOF\necho \"[$a][$b] ?=$?\"".to_string()),
        ("type", "type cd; type rc; command -v echo; type nosuchcmd; echo \"?=$?\"".to_string()),
        ("async-wait", format!("{{ echo w{k} >f3; exit 3; }} & wait $!; echo \"?=$?\"; cat f3")),
        ("trap-self-signal", format!("trap 'echo trapped{k}' USR1; kill -s USR1 $$; echo after{k}; trap - USR1")),
("trap-child-signal", format!("trap 'echo got{k}' USR1; x=$(kill -s USR1 $$; echo a)$(echo b{k}); echo \"x=$x ?=$?\"; trap - USR1")),
        ("trap-child-signal", format!("trap 'echo got{k}' USR1; ( kill -s USR1 $$; echo sent ); ( echo c{k} ); echo \"?=$?\"; trap - USR1")),
        ("trap-child-signal", format!("trap ': got' USR1 TERM; v=$(kill -s TERM $$; kill -s USR1 $$; echo a{k}); w=$(echo b; rc 3); echo \"$v$w ?=$?\"; {{ echo p{k}; }} | cat; trap - USR1 TERM")),
                ("kill-child", "{ nap 200; echo never >nf; } & p=$!; kill -s TERM $p; wait $p; echo \"?=$?\"".to_string()),
        // the signal is caught - hence blocked - in the shell, and the child inherits
        // both: sent before the child has reset its traps, the signal stays pending
        // until the child unblocks it, and kills it then; the shell hears of it
        // (TERM and HUP: their numbers, which show in `$?`, are the same on both sides)
        ("kill-child-trapped", format!("trap 'echo T{k}' {sg}; {{ nap 200; echo never >nf; }} & p=$!; kill -s {sg} $p; wait $p; echo \"?=$?\"; trap - {sg}", sg = rng.pick(&["TERM", "HUP"]))),
        ("kill-child-trapped", format!("trap 'echo T{k}' TERM; ( nap 200; echo never >nf ) & kill -s TERM $!; wait; echo \"?=$?\"; trap - TERM")),
        ("umask", format!("umask {}; echo w{k} >m{k}; umask 022", rng.pick(&["027", "077", "002"]))),
        ("dir-as-file", format!("echo w{k} >d; echo \"?=$?\"")),
        ("dir-as-file", format!("echo w{k} >>d; echo \"?=$?\"; echo v{k} >|empty; echo \"?=$?\"")),
        ("dir-read-write", format!("echo w{k} 1<>d; echo \"?=$?\"; <>empty; echo \"?=$?\"")),
        ("dir-read-write", "( exec 3<>d; echo \"in ?=$?\" ); echo \"?=$?\"".to_string()),
        ("missing-input", "cat <missing; echo \"?=$?\"".to_string()),
        ("here-doc", format!("cat <<EOF\nh{k} $HOME_NOT_SET\nEOF")),
        ("rw-open", format!("echo w{k} 1<>{}", rng.pick(&["f1", "e1"]))),
        ("dup", format!("echo w{k} 2>&1 >f2; echo x{k} >&2 2>>f2")),
        ("status", format!("rc {}; echo \"?=$?\"", rng.pick(&[0u8, 1, 7]))),
        ("cmd-not-found", format!("nosuch{k}; echo \"?=$?\"; ./e1; echo \"?=$?\"; ./d; echo \"?=$?\"; d/a.txt; echo \"?=$?\"; ./missing/x; echo \"?=$?\"")),
        // the descriptor table itself (a leak on either side shows at once)
        ("fd-table", "fdl".to_string()),
        ("fd-table", "exec 5>|f2 7<e1; fdl; ( fdl ); exec 5>&- 7<&-; fdl".to_string()),
        ("creat-in-missing-dir", format!("echo w{k} >nodir/f; echo \"?=$?\"")),
        ("file-as-dir", format!("echo w{k} >e1/f; echo \"?=$?\"; cat e1/f; echo \"?=$?\"")),
        ("cd-to-file", "cd e1; echo \"?=$?\"".to_string()),
        ("read-directory", "cat d; echo \"?=$?\"".to_string()),
        ("read-directory", "read x <d; echo \"?=$?\"".to_string()),
        ("wait-unknown", "wait 99999; echo \"?=$?\"; wait; echo \"?=$?\"".to_string()),
        ("append-shared-offset", format!("exec 3>>f1; echo a{k} >&3; echo b{k} >f1; echo c{k} >&3; exec 3>&-; cat f1")),
        ("truncate-under-open-fd", format!("exec 3>f2; echo aaaa{k} >&3; : >f2; echo b{k} >&3; exec 3>&-; cat f2 | relay 64 | sink 0 0")),
        ("truncate-under-open-fd", format!("{{ echo hello{k}; : >f1; echo x{k}; }} >f1; cat f1 | sink 0 0")),
("reader-writer-offsets", format!(": >|rw{k}; exec 3<rw{k}; echo data{k} >>rw{k}; read x <&3; echo \"[$x] ?=$?\"; read y <&3; echo \"?=$?\"; echo more{k} >>rw{k}; read z <&3; echo \"[$z] ?=$?\"; exec 3<&-")),
        ("reader-writer-offsets", format!("exec 3<>rx{k}; echo abc{k} >&3; read x <&3; echo \"[$x] ?=$?\"; exec 3<&-; cat rx{k}")),
        ("reader-writer-offsets", format!("echo hello{k} >|rt{k}; exec 3<rt{k}; read -r a <&3; : >|rt{k}; echo hi >>rt{k}; read b <&3; echo \"[$a][$b] ?=$?\"; exec 3<&-")),
        ("hidden-glob", "echo .*; echo .h*; echo d/.*".to_string()),
        ("symlink-open", "cat lnk; echo \"?=$?\"".to_string()),
        ("symlink-dir-prefix", "echo dlnk/*; cat dlnk/a.txt; echo \"?=$?\"".to_string()),
        ("symlink-open", "cat broken; echo \"?=$?\"".to_string()),
        ("symlink-open", format!("echo w{k} >lnk; cat e1")),
        ("symlink-dir-prefix", "cd dlnk; echo *; cd ..".to_string()),
        ("symlink-open", format!("echo w{k} >broken; echo \"?=$?\"; echo *")),
        ("shared-offset-read", "exec 3<e1; read a <&3; ( read c <&3; echo \"child $c\" ); read b <&3; echo \"[$a][$b] ?=$?\"; exec 3<&-".to_string()),
        ("read-empty-stdin", "read x; echo \"?=$? [$x]\"".to_string()),
        ("closed-stdout", format!("echo w{k} >&-; echo \"?=$?\"")),
        ("closed-stdin", "exec 0<&-; read x; echo \"?=$?\"".to_string()),
        ("ignore-signal", "trap '' TERM; kill -s TERM $$; echo alive; trap - TERM".to_string()),
        ("pipeline-status", "{ exit 7; } | { exit 9; }; echo \"?=$?\"; ! rc 3; echo \"?=$?\"".to_string()),
        ("pipefail", "set -o pipefail; { exit 7; } | rc 0; echo \"?=$?\"; set +o pipefail".to_string()),
        ("big-here-doc", format!("sink 0 0 <<'EOF'\n{big}EOF")),
        ("big-pipe", format!("gen 70000 {k} 4096 0 0 | relay 1000 | sink {k} 0 333")),
        // a writer that is certain to find the (real: 64 KiB) pipe full: the
        // reader takes 48 bytes at a time
        ("big-pipe", format!("gen 120000 {k} 16384 0 0 | relay 48 | sink {k} 0 4096")),
        // two processes share one end of a pipe (and with it the O_NONBLOCK flag
        // that the shell sets temporarily); more data than any pipe buffers
        ("shared-pipe-end", format!("{{ recs A {} 512 & recs B 170 512; wait; }} | recsink 512; echo \"?=$?\"", 150 + k % 7)),
        ("shared-pipe-end", format!("gen {} {k} 4096 2 0 | {{ tally 64 <&3 >t1 & tally 300 <&3 >t2; wait; }} 3<&0; cat t1 t2 | {{ IFS=' =' read a n1 b s1 c q1; IFS=' =' read a n2 b s2 c q2; echo $((n1+n2)) $((s1+s2)) $((q1+q2)); }}", 150000 + k)),
("stop-cont", format!("{{ nap 30; echo done{k} >sc{k}; exit 3; }} & p=$!; kill -s STOP $p; kill -s CONT $p; wait $p; echo \"?=$?\"; cat sc{k}")),
        ("stop-cont", "{ nap 100000; } & p=$!; kill -s STOP $p; kill -s TERM $p; kill -s CONT $p; wait $p; echo \"?=$?\"".to_string()),
        // a `$PWD` that names another existing file is not trusted: `pwd` falls back
        // on the working directory itself
        ("stale-pwd", format!("cd d; echo x >pf{k}; o=$PWD; PWD=$PWD/pf{k}; q=$(pwd); echo \"${{q##*/}}\"; PWD=${{o%/*}}; q=$(pwd); echo \"${{q##*/}}\"; PWD=$o; cd ..; echo \"?=$?\"")),
        // the physical working directory in a directory whose path is longer than 1 KiB
        ("long-cwd", format!("( cd {LONG_DIR}; q=$(pwd -P); echo \"${{q##*/L}} ?=$?\" | relay 64 | sink 0 0; cd -P .; echo \"?=$?\" )")),
        // job control without a terminal: the job list follows the stop and the
        // continuation of a job (what `wait` reports for stopped / continued children)
        ("job-stop-cont", format!("set -m; {{ nap 400; echo never >jn{k}; }} & kill -s STOP %1; nap 40; jobs; kill -s CONT %1; nap 40; jobs; kill -s TERM %1; wait %1; echo \"?=$?\"; set +m")),
        // a second stop signal sent to a stopped process is discarded by SIGCONT
        ("stop-cont", format!("{{ nap 30; echo done{k} >sd{k}; exit 5; }} & p=$!; kill -s STOP $p; kill -s {} $p; kill -s CONT $p; wait $p; echo \"?=$?\"; cat sd{k}", rng.pick(&["TSTP", "TTIN", "TTOU", "STOP"]))),
        ("kill-reaped", "{ exit 0; } & p=$!; wait $p; kill -s TERM $p; echo \"?=$?\"".to_string()),
        // the highest and the lowest real-time signal can be trapped and caught
        ("trap-rt", format!("trap 'echo rt{k}' RTMAX RTMIN; kill -s RTMAX $$; echo mid; kill -s RTMIN $$; echo \"?=$?\"; trap - RTMAX RTMIN")),
        // only the low eight bits of an exit status reach the parent
        ("exit-status-wrap", format!("( exit {} ); echo \"?=$?\"; {{ exit {}; }} & wait $!; echo \"?=$?\"; x=$(exit 257); echo \"?=$?\"", rng.pick(&[256u32, 384, 1000, 511]), rng.pick(&[256u32, 1000, 300]))),
        // a new name with a trailing slash cannot be created as a regular file
        ("creat-trailing-slash", format!("echo hi{k} >nts{k}/; echo \"?=$?\"; echo hi >ntt{k}/.; echo \"?=$?\"; echo nt*")),
        ("fifo", format!("{{ echo w{k} >fifo; }} & cat fifo; wait; echo \"?=$?\"")),
        ("rw-no-truncate", "cat <>e1; echo z 1<>e1; cat e1".to_string()),
        ("exit-trap", format!("( trap 'echo bye{k}' EXIT; echo in; exit 4 ); echo \"?=$?\"")),
        ("exec-heredoc-fd", format!("exec {fd}<<EOF\nhd{k} one\nhd{k} two\nEOF\nread x <&{fd}; echo \"[$x] ?=$?\"; cat <&{fd}; exec {fd}<&-; echo \"?=$?\"")),
        ("exec-heredoc-fd", format!("exec 3<<EOF\nlow{k}\nEOF\nread x <&3; echo \"[$x] ?=$?\"; exec 3<&-; echo \"?=$?\"")),
        ("exec-read-fd", format!("exec {fd}<e1; read y <&{fd}; echo \"[$y]\"; exec {fd}<&-")),
        ("exec-persist", format!("exec 3>&1 >f1; echo hidden{k}; exec >&3 3>&-; echo back{k}; cat f1")),
        ("dup-close-combo", format!("echo w{k} 3>f2 >&3 3>&-; cat f2")),
        ("function-redir", format!("fn{k}() {{ echo in{k}; echo err{k} >&2; }}; fn{k} >f1 2>f2; cat f1 f2")),
        ("compound-redir", format!("for i in 1 2; do echo i$i; done >f1; while read l; do echo \"l=$l\"; done <f1")),
        ("dup-from-rw", format!("exec {fd}<>f1; echo w{k} >&{fd}; echo \"?=$?\"; exec {fd}>&-; cat f1")),
        ("dup-from-rw", format!("exec {fd}<>e1; read x <&{fd}; echo \"[$x] ?=$?\"; echo z{k} >&{fd}; echo \"?=$?\"; exec {fd}<&-; cat e1")),
        ("dup-from-wo", format!("exec {fd}>f2; read x <&{fd}; echo \"?=$?\"; echo w{k} >&{fd}; exec {fd}>&-; cat f2")),
        ("dup-from-ro", format!("exec {fd}<e1; echo w{k} >&{fd}; echo \"?=$?\"; read y <&{fd}; echo \"[$y]\"; exec {fd}<&-")),
        ("dup-from-append", format!("exec {fd}>>f1; echo a{k} >&{fd}; cat <&{fd}; echo \"?=$?\"; exec {fd}>&-")),
        ("append-across-processes", format!("exec 3>>f2; ( echo child{k} >&3 ); echo parent{k} >&3; {{ echo job{k} >&3; }} & wait; exec 3>&-; cat f2")),
        ("write-offset-across-processes", format!("exec 3>f1; ( echo child{k} >&3 ); echo parent{k} >&3; exec 3>&-; cat f1")),
        ("dup-onto-itself", format!("echo w{k} 1>&1; echo v{k} 2>&2 >&2; echo \"?=$?\"")),
        ("close-closed", "exec 7>&-; echo \"?=$?\"; exec 7<&-; echo \"?=$?\"".to_string()),
        ("umask-print", format!("umask; umask -S; umask {}; umask; umask -S; umask 022", rng.pick(&["027", "077", "u=rwx,g=rx,o="]))),
        ("selfkill-status", format!("( echo s{k}; selfkill {}; echo NEVER ); echo \"?=$?\"", rng.pick(&["TERM", "KILL", "HUP", "INT", "QUIT"]))),
        ("selfkill-status", format!("v=$(echo s{k}; selfkill {}); echo \"[$v] ?=$?\"", rng.pick(&["TERM", "KILL", "HUP"]))),
        ("kill-child", format!("{{ nap 200; echo never >nf; }} & p=$!; kill -s {} $p; wait $p; echo \"?=$?\"", rng.pick(&["KILL", "HUP", "INT"]))),
        ("excl-create", format!("set -C; echo w{k} >newf{k}; echo \"?=$?\"; echo v{k} >newf{k}; echo \"?=$?\"; set +C; cat newf{k}")),
        ("trunc-rw", format!("echo long-content-{k} >f1; echo s 1<>f1; cat f1; echo t >|f1; cat f1")),
        ("readdir-after-create", format!("echo w{k} >d/sub/n{k}; echo d/sub/*; echo w >empty/x{k}; echo empty/*")),
    ]
}

fn gen_item(rng: &mut Rng, w: &mut u32, feats: &mut Vec<String>) -> (String, String) {
    *w += 1;
    let mut v = variants(rng, *w);
    let i = rng.below(v.len() as u32) as usize;
    let (feat, line) = v.swap_remove(i);
    if !feats.iter().any(|x| x == feat) {
        feats.push(feat.to_string());
    }
    (feat.to_string(), line)
}

pub fn generate(rng: &mut Rng, tier: Tier) -> Case {
    let n = rng.range(
        2,
        match tier {
            Tier::Quick => 8,
            Tier::Thorough => 14,
        },
    );
    let mut w = 0;
    let mut feats = Vec::new();
    let mut lines = vec!["umask 022".to_string()];
    let mut tags = vec![String::new()];
    for _ in 0..n {
        let (t, l) = gen_item(rng, &mut w, &mut feats);
        tags.push(t);
        lines.push(l);
    }
    lines.push("echo end \"?=$?\"".into());
    tags.push(String::new());
    Case {
        lines,
        tags,
        features: feats,
    }
}

type Tree = BTreeMap<String, (char, u32, Vec<u8>)>;

#[derive(Clone, Debug, PartialEq)]
pub struct Outcome {
    pub stdout: String,
    pub status: String,
    pub stderr_empty: bool,
    pub tree: Tree,
}

fn spec_of(c: &Case) -> ScriptSpec {
    let mut files = Vec::new();
    for (p, content, mode) in initial_tree() {
        if let Some(c) = content {
            files.push((format!("/work/{p}"), c.to_vec(), mode));
        }
    }
    ScriptSpec {
        script: c.lines.join("\n") + "\n",
        dash_c: true,
        files,
        ..Default::default()
    }
}

fn sim_outcome(obs: &Observed) -> Outcome {
    let mut tree = Tree::new();
    for (p, (t, mode, content)) in &obs.files {
        if p == "/work" {
            continue;
        }
        let rel = p.trim_start_matches("/work/").to_string();
        tree.insert(rel, (*t, *mode & 0o777, content.clone()));
    }
    Outcome {
        stdout: obs.stdout.clone(),
        status: obs.status.clone(),
        stderr_empty: obs.stderr.is_empty(),
        tree,
    }
}

fn run_sim(c: &Case, cfg: &SimConfig, decider: Decider) -> (Observed, Option<Viol>) {
    let obs = crate::shellrun::run_script_with(
        &spec_of(c),
        cfg,
        decider,
        |w| {
            {
                use std::rc::Rc;
                use std::cell::RefCell;
                use yash_env::system::r#virtual::{FileBody, Inode};
                let mut st = w.system.state.borrow_mut();
                // (the real side has no controlling terminal: no `/dev/tty` here either)
                if let Ok(dev) = st.file_system.get("/dev")
                    && let FileBody::Directory { files } = &mut dev.borrow_mut().body
                {
                    files.retain(|name, _| name.as_bytes() != b"tty");
                }
                for (p, target) in initial_links() {
                    st.file_system
                        .save(
                            format!("/work/{p}").as_str(),
                            Rc::new(RefCell::new(Inode {
                                body: FileBody::Symlink { target: target.into() },
                                permissions: yash_env::system::Mode::from_bits_truncate(0o777),
                            })),
                        )
                        .unwrap();
                }
                st.file_system
                    .save(
                        format!("/work/{FIFO}").as_str(),
                        Rc::new(RefCell::new(Inode {
                            body: FileBody::Fifo {
                                content: Default::default(),
                                readers: 0,
                                writers: 0,
                                pending_open_wakers: Default::default(),
                                pending_read_wakers: Default::default(),
                                pending_write_wakers: Default::default(),
                            },
                            permissions: yash_env::system::Mode::from_bits_truncate(0o644),
                        })),
                    )
                    .unwrap();
            }
            // directories of the initial tree (files create their parents with
            // default modes; set the modes explicitly)
            for (p, content, mode) in initial_tree() {
                if content.is_none() {
                    let path = format!("/work/{p}");
                    let st = w.system.state.borrow();
                    match st.file_system.get(path.as_str()) {
                        Ok(inode) => {
                            inode.borrow_mut().permissions = yash_env::system::Mode::from_bits_truncate(mode as _);
                        }
                        Err(_) => {
                            drop(st);
                            w.mkdir(&path, mode);
                        }
                    }
                }
            }
        },
        |_, _| true,
    );
    let v = check_liveness(&obs);
    (obs, v)
}

static SCRATCH: AtomicU64 = AtomicU64::new(0);

fn read_tree(root: &std::path::Path, rel: &str, out: &mut Tree) {
    let Ok(rd) = std::fs::read_dir(root.join(rel)) else {
        return;
    };
    for ent in rd.flatten() {
        let name = ent.file_name().to_string_lossy().into_owned();
        let r = if rel.is_empty() { name.clone() } else { format!("{rel}/{name}") };
        let Ok(md) = std::fs::symlink_metadata(ent.path()) else { continue };
        let mode = md.permissions().mode() & 0o777;
        use std::os::unix::fs::FileTypeExt as _;
        if md.file_type().is_symlink() {
            let target = std::fs::read_link(ent.path()).map(|t| t.to_string_lossy().into_owned()).unwrap_or_default();
            out.insert(r, ('l', 0o777, target.into_bytes()));
        } else if md.file_type().is_fifo() {
            out.insert(r, ('p', mode, Vec::new()));
        } else if md.is_dir() {
            out.insert(r.clone(), ('d', mode, Vec::new()));
            read_tree(root, &r, out);
        } else if md.is_file() {
            out.insert(r, ('f', mode, std::fs::read(ent.path()).unwrap_or_default()));
        } else {
            out.insert(r, ('?', mode, Vec::new()));
        }
    }
}

thread_local! {
    /// set by `run_real` when the real shell did not finish within 10 s
    static REAL_TIMED_OUT: std::cell::Cell<bool> = const { std::cell::Cell::new(false) };
}

/// Runs the script with the real shell glue on the real kernel in a fresh
/// scratch directory. None = could not run (harness problem) or timed out.
pub fn run_real(c: &Case) -> Option<Outcome> {
    let n = SCRATCH.fetch_add(1, Ordering::Relaxed);
    let dir = std::env::temp_dir().join(format!("yash-c19-{}-{}", std::process::id(), n));
    let _ = std::fs::remove_dir_all(&dir);
    let work = dir.join("work");
    std::fs::create_dir_all(&work).ok()?;
    for (p, content, mode) in initial_tree() {
        let path = work.join(p);
        match content {
            None => std::fs::create_dir_all(&path).ok()?,
            Some(c) => std::fs::write(&path, c).ok()?,
        }
        std::fs::set_permissions(&path, std::fs::Permissions::from_mode(mode)).ok()?;
    }
    for (p, target) in initial_links() {
        std::os::unix::fs::symlink(target, work.join(p)).ok()?;
    }
    {
        let c = std::ffi::CString::new(work.join(FIFO).to_string_lossy().as_bytes()).ok()?;
        // SAFETY: plain libc call with a valid C string
        if unsafe { libc::mkfifo(c.as_ptr(), 0o644) } != 0 {
            return None;
        }
    }
    std::fs::write(dir.join("stdin"), b"").ok()?;
    let exe = std::env::current_exe().ok()?;
    let script = c.lines.join("\n") + "\n";
    // (a process group of its own, so that whatever the shell has forked can be
    // removed with it - after a time-out, or when this check ends early)
    use std::os::unix::process::CommandExt as _;
    let mut cmd = Command::new(exe);
    cmd.arg("real-shell")
        .arg("-c")
        .arg(&script)
        .current_dir(&work)
        .env_clear()
        .env("PATH", "/bin")
        .stdin(std::fs::File::open(dir.join("stdin")).ok()?)
        .stdout(Stdio::piped())
        .stderr(Stdio::piped())
        .process_group(0);
    unsafe {
        cmd.pre_exec(|| {
            libc::prctl(libc::PR_SET_PDEATHSIG, libc::SIGKILL);
            Ok(())
        });
    }
    let mut child = cmd.spawn().ok()?;
    let group = child.id() as i32;
    let mut so = child.stdout.take()?;
    let mut se = child.stderr.take()?;
    let t_out = std::thread::spawn(move || {
        let mut b = Vec::new();
        so.read_to_end(&mut b).ok();
        b
    });
    let t_err = std::thread::spawn(move || {
        let mut b = Vec::new();
        se.read_to_end(&mut b).ok();
        b
    });
    let start = std::time::Instant::now();
    let status = loop {
        match child.try_wait() {
            Ok(Some(s)) => break Some(s),
            Ok(None) => {
                if start.elapsed().as_secs() > 10 {
                    REAL_TIMED_OUT.with(|f| f.set(true));
                    unsafe { libc::kill(-group, libc::SIGKILL) };
                    child.kill().ok();
                    child.wait().ok();
                    break None;
                }
                std::thread::sleep(std::time::Duration::from_millis(2));
            }
            Err(_) => break None,
        }
    };
    // stragglers (they would also keep the pipes above open)
    unsafe { libc::kill(-group, libc::SIGKILL) };
    let stdout = t_out.join().ok()?;
    let stderr = t_err.join().ok()?;
    let mut tree = Tree::new();
    read_tree(&work, "", &mut tree);
    std::fs::remove_dir_all(&dir).ok();
    let status = status?;
    use std::os::unix::process::ExitStatusExt as _;
    let status = match (status.code(), status.signal()) {
        (Some(c), _) => format!("exited:{c}"),
        (None, Some(s)) => format!("signaled:{s}"),
        _ => "unknown".into(),
    };
    Some(Outcome {
        stdout: String::from_utf8_lossy(&stdout).into_owned(),
        status,
        stderr_empty: stderr.is_empty(),
        tree,
    })
}

fn describe_tree_diff(a: &Tree, b: &Tree) -> String {
    let mut d = Vec::new();
    for (k, v) in a {
        match b.get(k) {
            None => d.push(format!("{k}: simulated has {}{:o}, real has nothing", v.0, v.1)),
            Some(w) if w != v => d.push(format!(
                "{k}: simulated {}{:o} {:?} / real {}{:o} {:?}",
                v.0,
                v.1,
                String::from_utf8_lossy(&v.2),
                w.0,
                w.1,
                String::from_utf8_lossy(&w.2)
            )),
            _ => {}
        }
    }
    for (k, w) in b {
        if !a.contains_key(k) {
            d.push(format!("{k}: real has {}{:o}, simulated has nothing", w.0, w.1));
        }
    }
    d.join("; ")
}

/// Classifies a divergence by the operation involved, so that known modelling
/// limits can be listed individually.
fn divergence_key(c: &Case, sim: &Outcome, real: &Outcome) -> String {
    let kind = divergence_kind(c, sim, real);
    let mut feats: Vec<&str> = c.tags.iter().map(String::as_str).filter(|t| !t.is_empty()).collect();
    feats.sort();
    feats.dedup();
    format!("{kind}@{}", feats.join("+"))
}

fn divergence_kind(c: &Case, sim: &Outcome, real: &Outcome) -> String {
    let script = c.lines.join("\n");
    if sim.tree != real.tree {
        let d = describe_tree_diff(&sim.tree, &real.tree);
        if d.contains("simulated has nothing") || d.contains("real has nothing") {
            return "tree:existence".into();
        }
        if d.contains("simulated f") && d.contains("real f") {
            let modes_differ = sim.tree.iter().any(|(k, v)| real.tree.get(k).is_some_and(|w| w.1 != v.1 && w.2 == v.2));
            if modes_differ {
                return "tree:mode".into();
            }
        }
        return "tree:content".into();
    }
    if sim.status != real.status {
        return "status".into();
    }
    if sim.stdout != real.stdout {
        if script.contains("echo *") || script.contains("echo d/*") || script.contains("*/") {
            return "stdout:glob".into();
        }
        return "stdout".into();
    }
    "stderr-emptiness".into()
}

pub struct C19;

#[derive(Clone, Debug, Serialize, Deserialize)]
struct Stored {
    case: Case,
    /// engine (s): a system-call history instead of a script
    #[serde(default)]
    shist: Option<crate::syscalls::SHist>,
}

/// Full differential run of one case. Returns (violation, admitted?, sim outcome hash)
fn differential(c: &Case, seed: u64, index: u64, schedules: u32, stats: Option<&mut Stats>) -> (Option<(String, String, String)>, bool) {
    let mut local = Stats::default();
    let stats = stats.unwrap_or(&mut local);
    let case_hash = hash_str(&c.lines.join("\n"));
    let mut rng = Rng::stream(seed, 1990, index);
    // 1. simulator first: the program must be confluent
    let mut first: Option<Outcome> = None;
    for k in 0..schedules {
        let cfg = SimConfig {
            strategy: if k == 0 { Strategy::Fifo } else { *rng.pick(&[Strategy::Random, Strategy::Random, Strategy::RoundRobin, Strategy::Pct(2)]) },
            preempt_permille: if k == 0 { 0 } else { *rng.pick(&[0u32, 100, 400]) },
            max_steps: 100_000,
            ..Default::default()
        };
        let (obs, v) = run_sim(c, &cfg, Decider::record(Rng::stream(seed, 1900 + k as u64, index)));
        stats.note_run(case_hash, &obs.outcome, obs.faults_fired);
        stats.add_counters(&obs.counters);
        stats.digest(index, obs_digest(&obs));
        if let Some(v) = v {
            // a deadlock/panic of the simulated side is C13's business but it
            // is a violation all the same
            let mut feats: Vec<&str> = c.tags.iter().map(String::as_str).filter(|t| !t.is_empty()).collect();
            feats.sort();
            feats.dedup();
            return (Some((v.0.clone(), format!("sim:{}@{}", v.1, feats.join("+")), v.2)), false);
        }
        let o = sim_outcome(&obs);
        match &first {
            None => first = Some(o),
            Some(f) if *f != o => {
                stats.count("discarded:not-confluent-in-simulator", 1);
                return (None, false);
            }
            _ => {}
        }
    }
    let sim = first.unwrap();
    // 2. real kernel, twice
    REAL_TIMED_OUT.with(|f| f.set(false));
    let Some(r1) = run_real(c) else {
        // A program that ends under every schedule of the simulated system
        // (within milliseconds of simulated time) but not within 10 s on the
        // real one, twice: the two systems differ in whether the shell ends.
        if REAL_TIMED_OUT.with(|f| f.get()) && run_real(c).is_none() && REAL_TIMED_OUT.with(|f| f.get()) {
            stats.count("real-side-hangs", 1);
            let mut feats: Vec<&str> = c.tags.iter().map(String::as_str).filter(|t| !t.is_empty()).collect();
            feats.sort();
            feats.dedup();
            let detail = format!(
                "simulated: stdout {:?} status {} under every schedule; real: the shell did not finish within 10 s (two attempts)",
                sim.stdout, sim.status
            );
            return (Some(("divergence:real-hang".into(), format!("real-hang@{}", feats.join("+")), detail)), true);
        }
        stats.count("discarded:real-run-failed-or-timed-out", 1);
        return (None, false);
    };
    let Some(r2) = run_real(c) else {
        stats.count("discarded:real-run-failed-or-timed-out", 1);
        return (None, false);
    };
    if r1 != r2 {
        stats.count("discarded:real-side-not-reproducible", 1);
        return (None, false);
    }
    stats.count("admitted_and_compared_with_real_kernel", 1);
    for f in &c.features {
        stats.count(&format!("feature:{f}"), 1);
    }
    if sim != r1 {
        let key = divergence_key(c, &sim, &r1);
        let detail = format!(
            "simulated: stdout {:?} status {} stderr-empty {}\nreal:      stdout {:?} status {} stderr-empty {}\ntree differences: {}",
            sim.stdout,
            sim.status,
            sim.stderr_empty,
            r1.stdout,
            r1.status,
            r1.stderr_empty,
            describe_tree_diff(&sim.tree, &r1.tree)
        );
        let kind = divergence_kind(c, &sim, &r1);
        return (Some((format!("divergence:{kind}"), key, detail)), true);
    }
    (None, true)
}

fn sys_failure(h: &crate::syscalls::SHist, v: (String, String, String)) -> Failure {
    Failure {
        class: v.0,
        key: v.1,
        detail: v.2,
        case: serde_json::to_value(Stored {
            case: Case {
                lines: Vec::new(),
                tags: Vec::new(),
                features: Vec::new(),
            },
            shist: Some(h.clone()),
        })
        .unwrap(),
        cfg: SimConfig::default(),
        decisions: Vec::new(),
        history_tail: Vec::new(),
    }
}

fn failure(c: &Case, v: (String, String, String)) -> Failure {
    Failure {
        class: v.0,
        key: v.1,
        detail: format!("{}\n--- script ---\n{}", v.2, c.lines.join("\n")),
        case: serde_json::to_value(Stored { case: c.clone(), shist: None }).unwrap(),
        cfg: SimConfig::default(),
        decisions: Vec::new(),
        history_tail: Vec::new(),
    }
}

impl Prop for C19 {
    fn id(&self) -> &'static str {
        "C19"
    }
    fn level(&self) -> &'static str {
        "exploration"
    }
    fn rule(&self) -> String {
        "Seeded programs of 2-14 commands over: redirections (write/append/clobber/read-write/dup/close, noclobber), cat of existing and missing files, globbing, exec N>file, closed descriptors, read from a file, pipelines, command substitution, subshell and main-shell cd (also to a missing directory), asynchronous list + wait, trap with a self-signal, `$PWD` naming another file, the physical working directory below a path longer than 1 KiB, job control without a terminal (`set -m`, stop / continue / `jobs`), killing a sleeping child (also with the signal trapped - hence blocked - in the shell, so that it stays pending in the child until the child unblocks it), umask and resulting modes, a directory in place of a file, here-documents. Each program is first run on the simulated OS under the FIFO schedule and seeded schedules with preemption; only if every schedule gives the same stdout, status and file tree (confluent) is it run, twice, on the real kernel through the same shell glue and probes on RealSystem in a fresh scratch directory (cleared environment, stdin from an empty file, umask 022); programs whose two real runs differ are discarded. Compared: stdout bytes, exit status, stderr emptiness, file tree (names, types, contents, permission bits). Distinct non-trivial = distinct admitted (script, schedule hash) pairs with >= 2 processes or >= 1 preemption.".into()
    }
    fn assumptions(&self) -> Vec<String> {
        vec![
            "the real execution is observed, not simulated; it is confined to programs the simulator has shown schedule-independent, and run twice".into(),
            "not covered (the simulated kernel does not claim to model them): execve of external programs, SIGPIPE, terminals/sessions, wall-clock timing, permission-denied cases (the sandbox runs as root), pids, wording of error messages (stderr is compared for emptiness only), the NUMBERS of signals other than HUP INT QUIT ABRT KILL ALRM TERM (the simulated system numbers the others from 101; an exit status 384+n of a child killed by such a signal therefore differs by construction, so only the POSIX-numbered signals are used where the number is visible)".into(),
            "known divergences are listed in known_findings.txt by their specific operation".into(),
        ]
    }
    fn components(&self) -> Value {
        json!({"real": ["whole shell on VirtualSystem (simulated side)", "whole shell on RealSystem in a subprocess (real side): yash-env system/real/*, run_real"], "stub": ["shell glue equivalent to yash_cli::run_as_shell_process (shared by both sides)", "generic probe built-ins (echo, cat, relay, rc, nap)", "seeded scheduler (simulated side only)"]})
    }
    /// A known finding `feature:NAME` covers every divergence whose minimised
    /// script still needs a command of feature NAME.
    fn matches_known(&self, failure_key: &str, finding_key: &str) -> bool {
        let Some(name) = finding_key.strip_prefix("feature:") else {
            return failure_key == finding_key;
        };
        failure_key
            .split('@')
            .nth(1)
            .is_some_and(|feats| feats.split('+').any(|f| f == name))
    }
    fn cases(&self, tier: Tier) -> u64 {
        match tier {
            Tier::Quick => 3000,
            Tier::Thorough => 20_000,
        }
    }

    fn run_case(&self, seed: u64, index: u64, tier: Tier, stats: &mut Stats) -> Option<Failure> {
        // engine (s): the same system-call histories on both kernels
        {
            let mut sr = Rng::stream(seed, 1977, index);
            let n = match tier {
                Tier::Quick => 4,
                Tier::Thorough => 8,
            };
            let hists: Vec<crate::syscalls::SHist> = (0..n).map(|_| crate::syscalls::generate(&mut sr, tier == Tier::Thorough)).collect();
            match crate::syscalls::run_real_batch(&hists) {
                None => stats.count("syscall_histories:real-side-failed", 1),
                Some(real) => {
                    let mut reach = std::collections::BTreeMap::new();
                    for (h, r) in hists.iter().zip(real.iter()) {
                        stats.count("syscall_histories", 1);
                        let sim = crate::syscalls::run_virtual(h);
                        if let Some(v) = crate::syscalls::compare(h, &sim, r, &mut reach) {
                            stats.count("violating_runs", 1);
                            return Some(sys_failure(h, v));
                        }
                    }
                    for (k, v) in reach {
                        stats.count(k, v);
                    }
                }
            }
        }
        let mut rng = Rng::stream(seed, 19, index);
        let case = generate(&mut rng, tier);
        let schedules = match tier {
            Tier::Quick => 6,
            Tier::Thorough => 12,
        };
        if stats.samples.len() < 2 && index % 50 == 1 {
            stats.samples.push(json!({"script": case.lines, "features": case.features}));
        }
        let (v, _admitted) = differential(&case, seed, index, schedules, Some(stats));
        let mut v = v?;
        // reduce the script right away (while the same kind of divergence
        // persists) so that the key names the operation(s) really involved
        let mut case = case;
        let mut spent = 0;
        'outer: loop {
            for i in 1..case.lines.len().saturating_sub(1) {
                if spent >= 60 {
                    break 'outer;
                }
                let mut n = case.clone();
                n.lines.remove(i);
                n.tags.remove(i);
                spent += 1;
                if let (Some(v2), _) = differential(&n, seed, index, schedules.min(4), None)
                    && v2.0 == v.0
                {
                    case = n;
                    v = v2;
                    continue 'outer;
                }
            }
            break;
        }
        Some(failure(&case, v))
    }

    fn rerun(&self, case: &Value, _cfg: &SimConfig, _decisions: &[Decision]) -> Option<Failure> {
        let s: Stored = serde_json::from_value(case.clone()).ok()?;
        if let Some(h) = &s.shist {
            let real = crate::syscalls::run_real_batch(std::slice::from_ref(h))?;
            let sim = crate::syscalls::run_virtual(h);
            return crate::syscalls::compare(h, &sim, &real[0], &mut std::collections::BTreeMap::new()).map(|v| sys_failure(h, v));
        }
        let (v, _) = differential(&s.case, 1, 0, 6, None);
        v.map(|v| failure(&s.case, v))
    }

    fn shrink(&self, case: &Value) -> Vec<Value> {
        let Ok(s) = serde_json::from_value::<Stored>(case.clone()) else {
            return Vec::new();
        };
        if let Some(h) = &s.shist {
            return crate::syscalls::shrink(h)
                .into_iter()
                .map(|h| serde_json::to_value(Stored { case: s.case.clone(), shist: Some(h) }).unwrap())
                .collect();
        }
        let mut out = Vec::new();
        for i in 1..s.case.lines.len().saturating_sub(1) {
            let mut n = s.case.clone();
            n.lines.remove(i);
            n.tags.remove(i);
            out.push(serde_json::to_value(Stored { case: n, shist: None }).unwrap());
        }
        out
    }
}
