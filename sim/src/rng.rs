//! Seeded PRNG (splitmix64 -> xoshiro256**) and the decision log.
//!
//! One integer decides everything: every run derives its generator from
//! `(VERIF_SEED, property, run index)`; every choice made while a simulation
//! executes goes through [`Decider::decide`], which logs it, so that a run can
//! be replayed from the log alone.

use serde::{Deserialize, Serialize};

#[derive(Clone, Debug)]
pub struct Rng([u64; 4]);

fn splitmix(x: &mut u64) -> u64 {
    *x = x.wrapping_add(0x9E37_79B9_7F4A_7C15);
    let mut z = *x;
    z = (z ^ (z >> 30)).wrapping_mul(0xBF58_476D_1CE4_E5B9);
    z = (z ^ (z >> 27)).wrapping_mul(0x94D0_49BB_1331_11EB);
    z ^ (z >> 31)
}

impl Rng {
    pub fn new(seed: u64) -> Self {
        let mut x = seed;
        Rng([
            splitmix(&mut x),
            splitmix(&mut x),
            splitmix(&mut x),
            splitmix(&mut x),
        ])
    }

    /// Independent stream for (seed, a, b).
    pub fn stream(seed: u64, a: u64, b: u64) -> Self {
        let mut x = seed ^ 0xD1B5_4A32_D192_ED03;
        let s1 = splitmix(&mut x);
        let mut y = s1 ^ a.wrapping_mul(0x9E37_79B9_7F4A_7C15);
        let s2 = splitmix(&mut y);
        let mut z = s2 ^ b.wrapping_mul(0xC2B2_AE3D_27D4_EB4F);
        Rng::new(splitmix(&mut z))
    }

    pub fn next_u64(&mut self) -> u64 {
        let s = &mut self.0;
        let result = s[1].wrapping_mul(5).rotate_left(7).wrapping_mul(9);
        let t = s[1] << 17;
        s[2] ^= s[0];
        s[3] ^= s[1];
        s[1] ^= s[2];
        s[0] ^= s[3];
        s[2] ^= t;
        s[3] = s[3].rotate_left(45);
        result
    }

    /// Uniform in `0..n` (`n >= 1`).
    pub fn below(&mut self, n: u32) -> u32 {
        debug_assert!(n >= 1);
        ((self.next_u64() >> 32) * n as u64 >> 32) as u32
    }

    /// Uniform in `lo..=hi`.
    pub fn range(&mut self, lo: u32, hi: u32) -> u32 {
        lo + self.below(hi - lo + 1)
    }

    /// True with probability `permille / 1000`.
    pub fn chance(&mut self, permille: u32) -> bool {
        permille > 0 && self.below(1000) < permille
    }

    pub fn pick<'a, T>(&mut self, items: &'a [T]) -> &'a T {
        &items[self.below(items.len() as u32) as usize]
    }

    pub fn bool(&mut self) -> bool {
        self.next_u64() & 1 == 1
    }
}

/// Tags of decisions (what kind of choice was made).
pub mod tag {
    pub const SCHED: u8 = 1; // which ready task runs next
    pub const PREEMPT: u8 = 2; // preempt at a site?
    pub const CLAMP: u8 = 3; // short read/write length
    pub const ALLOC: u8 = 4; // fail fd allocation?
    pub const ENV: u8 = 5; // environment event (signal, ...)
    pub const SPAWN: u8 = 6; // fail fork?
    pub const FEED: u8 = 7; // feeder chunk size
    pub const MISC: u8 = 8;
}

#[derive(Clone, Copy, Debug, Serialize, Deserialize, PartialEq, Eq)]
pub struct Decision {
    pub tag: u8,
    pub n: u32,
    pub v: u32,
}

/// Source of all run-time choices.
#[derive(Debug)]
pub struct Decider {
    rng: Rng,
    /// Replay mode: one queue of values per tag, so that removing a decision
    /// of one kind does not shift the decisions of the other kinds.
    replay: Option<Vec<std::collections::VecDeque<u32>>>,
    pub log: Vec<Decision>,
}

impl Decider {
    pub fn record(rng: Rng) -> Self {
        Decider {
            rng,
            replay: None,
            log: Vec::new(),
        }
    }

    pub fn replay(log: &[Decision]) -> Self {
        let mut queues = vec![std::collections::VecDeque::new(); 16];
        for d in log {
            queues[(d.tag & 15) as usize].push_back(d.v);
        }
        Decider {
            rng: Rng::new(0),
            replay: Some(queues),
            log: Vec::new(),
        }
    }

    pub fn is_replay(&self) -> bool {
        self.replay.is_some()
    }

    /// Makes a decision in `0..n`. In record mode `f` computes it (usually from
    /// the PRNG); in replay mode the next logged value of that tag is used (0
    /// when the log is exhausted, clamped into range otherwise).
    pub fn decide(&mut self, tag: u8, n: u32, f: impl FnOnce(&mut Rng) -> u32) -> u32 {
        let n = n.max(1);
        let v = match &mut self.replay {
            None => f(&mut self.rng).min(n - 1),
            Some(queues) => queues[(tag & 15) as usize]
                .pop_front()
                .unwrap_or(0)
                .min(n - 1),
        };
        self.log.push(Decision { tag, n, v });
        v
    }

    pub fn choose(&mut self, tag: u8, n: u32) -> u32 {
        self.decide(tag, n, |r| r.below(n.max(1)))
    }

    /// A yes/no decision; sites configured with probability 0 make (and log)
    /// no decision at all, in both modes.
    pub fn chance(&mut self, tag: u8, permille: u32) -> bool {
        if permille == 0 {
            return false;
        }
        self.decide(tag, 2, |r| r.chance(permille) as u32) == 1
    }
}

pub fn fnv1a(data: &[u8]) -> u64 {
    let mut h: u64 = 0xcbf2_9ce4_8422_2325;
    for b in data {
        h ^= *b as u64;
        h = h.wrapping_mul(0x0000_0100_0000_01B3);
    }
    h
}

pub fn fnv_combine(h: u64, x: u64) -> u64 {
    let mut h = h;
    for b in x.to_le_bytes() {
        h ^= b as u64;
        h = h.wrapping_mul(0x0000_0100_0000_01B3);
    }
    h
}
