//! C18 - input is consumed line by line, no further than the running command
//! needs; chunking of the underlying reads never changes the commands executed.

use crate::harness::{Failure, Prop, Stats, Tier, hash_str};
use crate::rng::{Decider, Decision, Rng, tag};
use crate::shellrun::{Observed, ScriptSpec, check_liveness, history_tail, obs_digest, run_script_with};
use crate::sim::{SimConfig, Strategy};
use crate::world::{VS, World, ctl};
use serde::{Deserialize, Serialize};
use serde_json::{Value, json};
use std::time::Duration;
use yash_env::io::Fd;
use yash_env::job::Pid;
use yash_env::semantics::ExitStatus;
use yash_env::system::concurrency::{Sleep as _, WriteAll as _};
use yash_env::system::{Close as _, Dup as _, Exit as _, Pipe as _};

#[derive(Clone, Debug, Default, Serialize, Deserialize, PartialEq)]
pub struct Unit {
    /// input lines (without the trailing newline), commands and data alike
    pub lines: Vec<String>,
    /// stdout lines this unit produces
    pub out: Vec<String>,
    /// (tell id, index of the line within this unit at whose end the input
    /// offset must be when the tell executes)
    pub tells: Vec<(u32, usize)>,
    /// exit status after the unit (None: unchanged)
    pub status: Option<u8>,
    /// the unit reads the shell's standard input
    pub reads_stdin: bool,
    /// the shell exits here
    pub exits: bool,
    /// the unit is a syntax error
    pub error: bool,
    /// indexes of lines that are data consumed by a command (never parsed)
    #[serde(default)]
    pub data: Vec<usize>,
    /// Some(on): the unit switches the verbose option
    #[serde(default)]
    pub verbose: Option<bool>,
    /// a syntax error that makes the parser read to the end of the input
    #[serde(default)]
    pub to_eof: bool,
    /// the unit closes the shell's standard error (`exec 2>&-`): from here on
    /// nothing the verbose option echoes can be written, and every line must
    /// still be executed
    #[serde(default)]
    pub closes_stderr: bool,
    /// bytes the unit reads through descriptor 0 while that descriptor is
    /// redirected elsewhere (they are not input of the shell)
    #[serde(default)]
    pub foreign0: u32,
    /// the unit empties the script file (`: >/work/script.sh`): a shell that
    /// runs that file as a command file reads it line by line, so it finds the
    /// end of the file next and executes nothing more (elsewhere the line only
    /// creates an empty file)
    #[serde(default)]
    pub truncates_script: bool,
}

#[derive(Clone, Copy, Debug, Serialize, Deserialize, PartialEq, Eq)]
pub enum Variant {
    FileStdin,
    PipeStdin,
    DashC,
    ScriptFile,
}

#[derive(Clone, Debug, Serialize, Deserialize)]
pub struct Case {
    /// Some(T): the input source dies after delivering exactly T bytes (the
    /// file is that short; the feeder closes the pipe there). Units whose last
    /// line was delivered completely must have taken effect.
    #[serde(default)]
    pub cut: Option<u32>,
    /// Some(k): the k-th read of the shell from its standard input (a regular
    /// file) fails with EIO. Same prefix oracle as for `cut`, the prefix being
    /// what the shell had read before the error.
    #[serde(default)]
    pub eio: Option<u32>,
    /// the EIO is transient: only that one read fails. The shell must still
    /// stop there (never run the part of a line it had read before the error)
    #[serde(default)]
    pub eio_once: bool,
    pub units: Vec<Unit>,
    /// last line has no trailing newline
    pub no_final_newline: bool,
    /// the script installs a USR1 trap first; the simulator then sends signals
    /// while the shell reads its input
    #[serde(default)]
    pub trap: bool,
    /// the shell reading its standard input is interactive (`-i`): prompts go
    /// to stderr (not compared), the commands executed and the input offsets
    /// are the same. Only for scripts without a planted syntax error (an
    /// interactive shell goes on after one).
    #[serde(default)]
    pub interactive: bool,
}

struct Gen<'a> {
    rng: &'a mut Rng,
    word: u32,
    tell: u32,
    /// (id, what the alias currently prints)
    aliases: Vec<(u32, String)>,
    self_extending_used: bool,
    funcs: Vec<u32>,
    noglob: bool,
    v: String,
    status: u8,
    verbose: bool,
}

impl Gen<'_> {
    fn w(&mut self) -> String {
        self.word += 1;
        format!("w{}", self.word)
    }
    fn tell(&mut self) -> u32 {
        self.tell += 1;
        self.tell
    }
    fn maybe_tell(&mut self, line: &mut String, unit: &mut Unit, at: usize) {
        if self.rng.below(2) == 0 {
            let k = self.tell();
            line.push_str(&format!("; tell {k}"));
            unit.tells.push((k, at));
        }
    }

    fn unit(&mut self) -> Unit {
        let mut u = Unit {
            lines: vec![],
            out: vec![],
            tells: vec![],
            status: Some(0),
            reads_stdin: false,
            exits: false,
            error: false,
            ..Default::default()
        };
        match self.rng.below(100) {
            0..=13 => {
                let w = self.w();
                let mut l = format!("echo {w}");
                self.maybe_tell(&mut l, &mut u, 0);
                u.lines.push(l);
                u.out.push(w);
            }
            14..=19 => {
                let n = *self.rng.pick(&[0u8, 1, 2, 7, 127]);
                let mut l = format!("rc {n}; echo \"?=$?\"");
                self.maybe_tell(&mut l, &mut u, 0);
                u.lines.push(l);
                u.out.push(format!("?={n}"));
            }
            20..=33 => {
                // read consumes the following data line(s)
                u.reads_stdin = true;
                // (some data words end in multi-byte characters: `read` assembles
                // them from single-byte reads whatever the chunking)
                let d: Vec<String> = (0..self.rng.range(1, 4))
                    .map(|_| {
                        let tail = *self.rng.pick(&["", "", "", "\u{e9}", "\u{3042}\u{3044}", "\u{1F600}"]);
                        format!("{}{tail}", self.w())
                    })
                    .collect();
                match self.rng.below(6) {
                    // a command line that ends in a backslash which does not
                    // continue it (the end of a comment; an escaped backslash):
                    // the next line is data, not part of the command
                    4 => {
                        let k = self.tell();
                        u.lines.push(format!("read a; echo \"[$a]\"; tell {k} # note \\"));
                        u.lines.push(d.join(" "));
                        u.out.push(format!("[{}]", d.join(" ")));
                        u.tells.push((k, 1));
                        u.data = vec![1];
                    }
                    5 => {
                        let k = self.tell();
                        u.lines.push(format!("read a; tell {k}; echo \"[$a]\" q\\\\"));
                        u.lines.push(d.join(" "));
                        u.out.push(format!("[{}] q\\", d.join(" ")));
                        u.tells.push((k, 1));
                        u.data = vec![1];
                    }
                    0 => {
                        let k = self.tell();
                        u.lines.push(format!("read a; echo \"[$a]\"; tell {k}"));
                        u.lines.push(format!("  {}  ", d.join(" ")));
                        u.out.push(format!("[{}]", d.join(" ")));
                        u.tells.push((k, 1));
                        u.data = vec![1];
                    }
                    1 => {
                        let e: Vec<String> = (0..2).map(|_| self.w()).collect();
                        let k = self.tell();
                        u.lines.push(format!(
                            "read a b; read c; echo \"[$a][$b][$c]\"; tell {k}"
                        ));
                        u.lines.push(d.join(" "));
                        u.lines.push(e.join(" "));
                        u.out.push(format!(
                            "[{}][{}][{}]",
                            d[0],
                            d[1..].join(" "),
                            e.join(" ")
                        ));
                        u.tells.push((k, 2));
                        u.data = vec![1, 2];
                    }
                    2 => {
                        let k = self.tell();
                        u.lines.push(format!(
                            "IFS=: read a b; echo \"[$a][$b]\"; tell {k}"
                        ));
                        u.lines.push(d.join(":"));
                        u.out.push(format!("[{}][{}]", d[0], d[1..].join(":")));
                        u.tells.push((k, 1));
                        u.data = vec![1];
                    }
                    _ => {
                        // a multi-line command whose read comes later
                        let k = self.tell();
                        u.lines.push("if rc 0".into());
                        u.lines.push("then".into());
                        u.lines.push("  read a b".into());
                        u.lines.push(format!("  echo \"[$a][$b]\"; tell {k}"));
                        u.lines.push("fi".into());
                        u.lines.push(d.join(" "));
                        u.out.push(format!("[{}][{}]", d[0], d[1..].join(" ")));
                        u.tells.push((k, 5));
                        u.data = vec![5];
                    }
                }
            }
            34..=39 => {
                self.word += 1;
                let id = self.word;
                u.lines.push(format!("alias hi{id}='echo hello{id}'"));
                self.aliases.push((id, format!("hello{id}")));
            }
            40..=46 if !self.aliases.is_empty() => {
                let at = self.rng.below(self.aliases.len() as u32) as usize;
                let (id, text) = self.aliases[at].clone();
                let w = self.w();
                let mut l = if self.rng.below(4) == 0 {
                    // redefined and used on one line: the whole line was parsed
                    // (and its aliases substituted) before the redefinition ran,
                    // so this use still has the old meaning, later lines the new
                    let new = format!("hello{id}r{}", self.w());
                    self.aliases[at].1 = new.clone();
                    format!("alias hi{id}='echo {new}'; hi{id} {w}")
                } else {
                    format!("hi{id} {w}")
                };
                self.maybe_tell(&mut l, &mut u, 0);
                u.lines.push(l);
                u.out.push(format!("{text} {w}"));
            }
            47..=50 => {
                self.noglob = !self.noglob;
                u.lines.push(
                    if self.noglob {
                        *self.rng.pick(&["set -f", "set -o noglob"])
                    } else {
                        *self.rng.pick(&["set +f", "set +o noglob"])
                    }
                    .to_string(),
                );
            }
            51..=55 => {
                let mut l = "echo g*.txt".to_string();
                self.maybe_tell(&mut l, &mut u, 0);
                u.lines.push(l);
                u.out.push(if self.noglob {
                    "g*.txt".into()
                } else {
                    "g1.txt g2.txt".into()
                });
            }
            56..=61 => {
                let c = self.rng.below(2) as u8;
                let (a, b) = (self.w(), self.w());
                u.lines.push(format!("if rc {c}"));
                u.lines.push("then".into());
                u.lines.push(format!("  echo {a}"));
                u.lines.push("else".into());
                u.lines.push(format!("  echo {b}"));
                let mut l = "fi".to_string();
                self.maybe_tell(&mut l, &mut u, 5);
                u.lines.push(l);
                u.out.push(if c == 0 { a } else { b });
            }
            62..=66 => {
                let n = self.rng.range(1, 3);
                let items: Vec<String> = (1..=n).map(|i| i.to_string()).collect();
                u.lines.push(format!("for i in {}", items.join(" ")));
                u.lines.push("do echo \"i=$i\"".into());
                let mut l = "done".to_string();
                self.maybe_tell(&mut l, &mut u, 2);
                u.lines.push(l);
                for i in items {
                    u.out.push(format!("i={i}"));
                }
            }
            67..=70 => {
                self.word += 1;
                let id = self.word;
                u.lines.push(format!("f{id}() {{"));
                u.lines.push(format!("  echo \"f{id}:$1\""));
                u.lines.push("}".into());
                self.funcs.push(id);
            }
            71..=75 if !self.funcs.is_empty() => {
                let id = *self.rng.pick(&self.funcs);
                let w = self.w();
                let mut l = format!("f{id} {w}");
                self.maybe_tell(&mut l, &mut u, 0);
                u.lines.push(l);
                u.out.push(format!("f{id}:{w}"));
            }
            76..=79 => {
                let (a, b) = (self.w(), self.w());
                u.lines.push(format!("echo {a}\\"));
                let mut l = format!("{b} x");
                self.maybe_tell(&mut l, &mut u, 1);
                u.lines.push(l);
                u.out.push(format!("{a}{b} x"));
            }
            80..=82 => {
                // here-documents wherever the grammar lets a newline follow the
                // operator: the body is read at that newline, the rest of the
                // command comes after the delimiter line
                let n = self.rng.range(1, 3) as usize;
                let body: Vec<String> = (0..n).map(|_| self.w()).collect();
                let k = self.tell();
                let v = self.v.clone();
                let form = self.rng.below(9);
                let push_body = |u: &mut Unit, indent: &str, delim: &str| {
                    for w in &body {
                        u.lines.push(format!("{indent}{w} $v"));
                        u.out.push(format!("{w} {v}"));
                    }
                    u.lines.push(format!("{indent}{delim}"));
                };
                match form {
                    0 => {
                        let w = self.w();
                        let op = if self.rng.bool() { "&&" } else { "||" };
                        u.lines.push(format!("catfd 3 3<<EOF {op}"));
                        push_body(&mut u, "", "EOF");
                        u.lines.push(format!("echo {w}; tell {k}"));
                        if op == "&&" {
                            u.out.push(w);
                        }
                    }
                    1 => {
                        u.lines.push("catfd 3 3<<EOF |".into());
                        push_body(&mut u, "", "EOF");
                        u.lines.push(format!("relay 3; tell {k}"));
                    }
                    2 => {
                        u.lines.push("if rc 0; then".into());
                        u.lines.push("  catfd 3 3<<EOF".into());
                        push_body(&mut u, "", "EOF");
                        u.lines.push(format!("fi; tell {k}"));
                    }
                    3 => {
                        let w = self.w();
                        u.lines.push(format!("catfd 3 3<<E1; catfd 4 4<<E2; tell {k}"));
                        push_body(&mut u, "", "E1");
                        u.lines.push(format!("{w} second"));
                        u.out.push(format!("{w} second"));
                        u.lines.push("E2".into());
                    }
                    4 => {
                        u.lines.push(format!("catfd 3 3<<-EOF; tell {k}"));
                        push_body(&mut u, "\t", "EOF");
                    }
                    5 => {
                        u.lines.push("{".into());
                        u.lines.push("  catfd 3 3<<EOF".into());
                        push_body(&mut u, "", "EOF");
                        u.lines.push(format!("}}; tell {k}"));
                    }
                    7 | 8 => {
                        // two redirections of the SAME descriptor, the one the
                        // shell may be reading its input from: the command sees
                        // the last one, and afterwards the shell's input is
                        // where it was (the saved copies are undone in reverse)
                        let (x, y) = (self.w(), self.w());
                        u.lines.push(
                            if form == 7 {
                                format!("read a <<E1 <<E2; echo \"[$a]\"; tell {k}")
                            } else {
                                format!("{{ read a; }} </work/g1.txt <<E1 <<E2; echo \"[$a]\"; tell {k}")
                            },
                        );
                        u.lines.push(x);
                        u.lines.push("E1".into());
                        u.lines.push(y.clone());
                        u.lines.push("E2".into());
                        u.out.push(format!("[{y}]"));
                        u.foreign0 = y.len() as u32 + 1;
                    }
                    _ => {
                        let w = self.w();
                        u.lines.push("for i in 1; do catfd 3 3<<EOF".into());
                        push_body(&mut u, "", "EOF");
                        u.lines.push(format!("echo {w}; done; tell {k}"));
                        u.out.push(w);
                    }
                }
                let last = u.lines.len() - 1;
                u.tells.push((k, last));
            }
            83..=86 => {
                let quoted = self.rng.bool();
                let n = self.rng.range(1, 3);
                let k = self.tell();
                u.lines.push(format!(
                    "catfd 3 3<<{}; tell {k}",
                    if quoted { "'EOF'" } else { "EOF" }
                ));
                for _ in 0..n {
                    let w = self.w();
                    if quoted {
                        u.lines.push(format!("{w} $v"));
                        u.out.push(format!("{w} $v"));
                    } else {
                        u.lines.push(format!("{w} $v"));
                        u.out.push(format!("{w} {}", self.v));
                    }
                }
                u.lines.push("EOF".into());
                u.tells.push((k, n as usize + 1));
            }
            88 => {
                // the verbose option: every input line read from now on is
                // echoed to stderr as it is read
                self.verbose = !self.verbose;
                u.verbose = Some(self.verbose);
                u.lines.push(
                    if self.verbose {
                        *self.rng.pick(&["set -v", "set -o verbose"])
                    } else {
                        *self.rng.pick(&["set +v", "set +o verbose"])
                    }
                    .to_string(),
                );
            }
            87 => {
                u.lines.push(self.rng.pick(&["# a comment", "", "   ", ": ignored"]).to_string());
                if u.lines[0].starts_with('#') || u.lines[0].trim().is_empty() {
                    u.status = None;
                }
            }
            89..=91 => {
                let w = self.w();
                self.v = w.clone();
                u.lines.push(format!("v={w}"));
            }
            92 => {
                // eval of a two-line string: the alias defined by its first
                // line is in effect for its second line
                self.word += 1;
                let id = self.word;
                let w = self.w();
                u.lines.push(format!("eval 'alias ea{id}=\"echo EA{id}\""));
                let mut l = format!("ea{id} {w}'");
                self.maybe_tell(&mut l, &mut u, 1);
                u.lines.push(l);
                u.out.push(format!("EA{id} {w}"));
            }
            95 if !self.verbose && !self.self_extending_used => {
                // a dot script that extends itself: it is read line by line
                // while it runs, so the appended line is executed too
                self.self_extending_used = true;
                let mut l = ". /work/inc3.sh".to_string();
                self.maybe_tell(&mut l, &mut u, 0);
                u.lines.push(l);
                u.out.push("IC original".into());
                u.out.push("IC appended".into());
            }
            93 if !self.verbose => {
                // a dot script read line by line from its own descriptor; its
                // `read` consumes the next line of the MAIN input
                let d: Vec<String> = (0..3).map(|_| self.w()).collect();
                let k = self.tell();
                u.reads_stdin = true;
                u.lines.push(format!(". /work/inc1.sh; tell {k}"));
                u.lines.push(d.join(" "));
                u.out.push("IA inc".into());
                u.out.push(format!("[{}][{}]", d[0], d[1..].join(" ")));
                u.tells.push((k, 1));
                u.data = vec![1];
            }
            94 => {
                let (a, b) = (self.w(), self.w());
                let mut l = format!("eval 'echo {a}; echo {b}'");
                self.maybe_tell(&mut l, &mut u, 0);
                u.lines.push(l);
                u.out.push(a);
                u.out.push(b);
            }
            96 => {
                // a blank-ending alias makes the next word subject to alias
                // substitution - also across a line continuation
                self.word += 1;
                let id = self.word;
                let w = self.w();
                u.lines.push(format!("alias c{id}='command ' r{id}='echo AL{id}'"));
                if self.rng.bool() {
                    u.lines.push(format!("c{id} \\"));
                    let mut l = format!("r{id} {w}");
                    self.maybe_tell(&mut l, &mut u, 2);
                    u.lines.push(l);
                } else {
                    let mut l = format!("c{id} r{id} {w}");
                    self.maybe_tell(&mut l, &mut u, 1);
                    u.lines.push(l);
                }
                u.out.push(format!("AL{id} {w}"));
            }
            95 => {
                // an option that changes how the NEXT line is parsed
                let (a, b) = (self.w(), self.w());
                if self.rng.bool() {
                    // ... also when that "line" is the next line of an alias
                    // value (the lexer still holds the rest of the value when
                    // the option changes)
                    let id = self.word;
                    u.lines.push(format!("alias pm{id}='set +o portable"));
                    u.lines.push(format!("arr{id}=(p q r)"));
                    u.lines.push(format!("echo {b}'"));
                    u.lines.push("set -o portable".into());
                    u.lines.push(format!("echo {a}"));
                    u.lines.push(format!("pm{id}"));
                } else {
                    u.lines.push("set -o portable".into());
                    u.lines.push(format!("echo {a}"));
                    u.lines.push("set +o portable".into());
                    u.lines.push(format!("arr{}=(p q r)", self.word));
                    u.lines.push(format!("echo {b}"));
                }
                u.out.push(a);
                u.out.push(b);
            }
            98 => {
                // a very long line with multi-byte characters around the
                // offsets at which a reader might split it (1024, 2048, 4096)
                let mb = "\u{e9}\u{e9}\u{3042}\u{1F600}\u{df}\u{3044}\u{e9}\u{1F600}\u{3042}\u{e9}";
                let mut word = String::new();
                for boundary in [1024usize, 2048, 4096] {
                    if boundary > 1024 && self.rng.bool() {
                        break;
                    }
                    // "echo " is 5 bytes long
                    let target = boundary - 5 - self.rng.range(1, 12) as usize;
                    while word.len() < target {
                        word.push('a');
                    }
                    word.push_str(mb);
                }
                let mut l = format!("echo {word}");
                self.maybe_tell(&mut l, &mut u, 0);
                u.lines.push(l);
                u.out.push(word);
            }
            97 => {
                let w = self.w();
                let mut l = match self.rng.below(3) {
                    0 => format!("( echo {w} )"),
                    1 => format!("echo {w} | relay 3"),
                    _ => format!("x=$(echo {w}); echo $x"),
                };
                self.maybe_tell(&mut l, &mut u, 0);
                u.lines.push(l);
                u.out.push(w);
            }
            _ => {
                let w = self.w();
                u.lines.push(format!("echo {w}"));
                u.out.push(w);
            }
        }
        // a command line may end in a separator: it is complete all the same
        let one_command_line = u.lines.len() == 1 || (u.reads_stdin && u.data == vec![1] && u.lines.len() == 2);
        if one_command_line
            && !u.lines[0].trim().is_empty()
            && !u.lines[0].starts_with('#')
            && !u.lines[0].ends_with('\\')
            && u.verbose.is_none()
            && self.rng.below(4) == 0
        {
            u.lines[0].push(';');
        }
        if let Some(s) = u.status {
            self.status = s;
        }
        u
    }
}

fn error_unit(rng: &mut Rng) -> Unit {
    if rng.below(5) == 0 {
        // the option set on the previous line makes this line a syntax error
        return Unit {
            lines: vec!["set -o portable".to_string(), "brr=(1 2)".to_string()],
            out: vec![],
            tells: vec![],
            status: Some(2),
            reads_stdin: false,
            exits: true,
            error: true,
            ..Default::default()
        };
    }
    let line = *rng.pick(&[
        "fi",
        "done",
        ")",
        "}",
        "echo x | | echo y",
        "echo \"unterminated",
        "for in do",
        "if rc 0; then echo x; done",
        "echo x; ;; echo y",
        "( echo x",
        // the offending token is the newline itself
        "echo x >",
        ": 2>&",
        "echo x <<",
    ]);
    Unit {
        // an unterminated quotation or parenthesis makes the parser read on to
        // the end of the input
        to_eof: line == "echo \"unterminated" || line == "( echo x",
        lines: vec![line.to_string()],
        out: vec![],
        tells: vec![],
        status: Some(2),
        reads_stdin: false,
        exits: true,
        error: true,
        ..Default::default()
    }
}

pub fn generate(rng: &mut Rng, tier: Tier) -> Case {
    let max = match tier {
        Tier::Quick => 10,
        Tier::Thorough => 22,
    };
    let n = rng.range(2, max);
    let mut g = Gen {
        rng,
        word: 0,
        tell: 0,
        aliases: vec![],
        self_extending_used: false,
        funcs: vec![],
        noglob: false,
        v: String::new(),
        status: 0,
        verbose: false,
    };
    let mut units = Vec::new();
    let trap = g.rng.below(4) == 0;
    if trap {
        let plain = |line: &str| Unit {
            lines: vec![line.to_string()],
            out: vec![],
            tells: vec![],
            status: Some(0),
            reads_stdin: false,
            exits: false,
            error: false,
            ..Default::default()
        };
        units.push(plain("trap 'mark tb U1; mark te U1; rc 5' USR1"));
        units.push(plain("mark armed"));
    }
    for _ in 0..n {
        units.push(g.unit());
    }
    if g.rng.below(8) == 0 {
        let at = g.rng.range(1, units.len() as u32) as usize;
        units.insert(
            at,
            Unit {
                lines: vec![": >/work/script.sh".to_string()],
                out: vec![],
                tells: vec![],
                status: Some(0),
                truncates_script: true,
                ..Default::default()
            },
        );
    }
    // optional ending
    let mut error_interactive = false;
    match g.rng.below(10) {
        0 | 1 => {
            // a consumer of the remaining input
            let data: Vec<String> = (0..g.rng.range(1, 4))
                .map(|_| format!("{} {}", g.w(), g.w()))
                .collect();
            let (cmd, out): (String, Vec<String>) = match g.rng.below(4) {
                0 => (format!("relay {}", g.rng.pick(&[1u32, 5, 64])), data.clone()),
                1 => ("relay 4 | relay 9".into(), data.clone()),
                2 => ("cat".into(), data.clone()),
                _ => (
                    "while read l; do echo \"L:$l\"; done".into(),
                    data.iter().map(|d| format!("L:{d}")).collect(),
                ),
            };
            let mut lines = vec![cmd];
            lines.extend(data);
            let data_idx: Vec<usize> = (1..lines.len()).collect();
            units.push(Unit {
                data: data_idx,
                lines,
                out,
                tells: vec![],
                status: Some(0),
                reads_stdin: true,
                exits: true,
                error: false,
                ..Default::default()
            });
        }
        6 if !units.iter().any(|u| u.verbose.is_some()) => {
            // (not with the verbose option: the new input is echoed as well)
            // the shell's own input is replaced: what follows in the old input
            // is never read, the commands of the new file run instead
            units.push(Unit {
                data: vec![1, 2],
                lines: vec!["exec </work/inc2.sh".into(), "echo NEVER".into(), "echo NEVER2".into()],
                out: vec!["IB inc2".into(), "IB done".into()],
                tells: vec![],
                status: Some(0),
                reads_stdin: true,
                exits: true,
                error: false,
                ..Default::default()
            });
        }
        2 => {
            let st = *g.rng.pick(&[0u8, 3, 9]);
            let mut lines = vec![if g.rng.bool() { format!("exit {st}") } else { format!("exit {st}; echo NEVER0") }];
            lines.push("echo NEVER".into());
            if g.rng.bool() {
                lines.push(")".into());
            }
            let unread: Vec<usize> = (1..lines.len()).collect();
            units.push(Unit {
                data: unread,
                lines,
                out: vec![],
                tells: vec![],
                status: Some(st),
                reads_stdin: false,
                exits: true,
                error: false,
                ..Default::default()
            });
        }
        3..=5 => {
            // plant a syntax error at a later line
            let p = g.rng.range(1, units.len() as u32) as usize;
            let mut rest = units.split_off(p);
            let eu = error_unit(g.rng);
            // an interactive shell reports the error and goes on with the next
            // line (not after an error that swallows the rest of the input or
            // leaves an option behind that changes the syntax)
            // (`for in do` is the start of a loop over a variable called `in`)
            const ONE_LINE: [&str; 10] = [
                "fi",
                "done",
                ")",
                "}",
                "echo x | | echo y",
                "if rc 0; then echo x; done",
                "echo x; ;; echo y",
                "echo x >",
                ": 2>&",
                "echo x <<",
            ];
            error_interactive = g.rng.below(5) == 0 && eu.lines.len() == 1 && ONE_LINE.contains(&eu.lines[0].as_str());
            units.push(eu);
            if !error_interactive {
                // what follows must never take effect
                for u in &mut rest {
                    u.out.clear();
                    u.tells.clear();
                    u.status = None;
                }
            }
            units.extend(rest);
        }
        _ => {}
    }
    // now and then the shell's standard error is closed before the verbose
    // option is switched on: the echo cannot be written, the lines still run
    if !units.iter().any(|u| u.error)
        && let Some(at) = units.iter().position(|u| u.verbose == Some(true))
        && g.rng.bool()
    {
        units.insert(
            at,
            Unit {
                lines: vec!["exec 2>&-".into()],
                status: Some(0),
                closes_stderr: true,
                ..Default::default()
            },
        );
    }
    let no_final_newline =
        g.rng.below(6) == 0
            && !units.last().is_some_and(|u| {
                // a here-document delimiter must be followed by a newline
                u.reads_stdin || u.lines.last().is_some_and(|l| matches!(l.trim(), "EOF" | "E1" | "E2"))
            })
            // (keeps the expectation of what the verbose option echoes simple)
            && !units.iter().any(|u| u.verbose == Some(true));
    // (also with a planted syntax error, unless it makes the parser read to the
    // end of the input: an interactive shell reports the error and goes on
    // with the next line)
    let interactive = error_interactive || g.rng.below(5) == 0 && !units.iter().any(|u| u.error);
    Case {
        cut: None,
        eio: None,
        eio_once: false,
        units,
        no_final_newline,
        trap,
        interactive,
    }
}

pub struct Expect {
    pub script: String,
    pub stdout: String,
    pub status: u8,
    /// (tell id, expected input offset)
    pub tells: Vec<(u32, u64)>,
    /// (tell id, bytes read so far through a redirected descriptor 0)
    pub foreign: Vec<(u32, u64)>,
    pub reads_stdin: bool,
    pub has_error: bool,
    pub interactive: bool,
    /// what the verbose option echoes to stderr when the script is read through
    /// a descriptor (None: the option is never switched on)
    pub echoed: Option<String>,
}

pub fn expect(c: &Case) -> Expect {
    let mut script = String::new();
    let mut stdout = String::new();
    let mut status = 0u8;
    let mut tells = Vec::new();
    let mut foreign = Vec::new();
    let mut foreign_cum = 0u64;
    let mut reads_stdin = false;
    let mut has_error = false;
    let mut done = false;
    let mut verbose = false;
    let mut any_verbose = false;
    let mut echoed = String::new();
    let mut eof_reader = false;
    let mut stderr_closed = false;
    for u in &c.units {
        let mut ends = Vec::new();
        for (i, l) in u.lines.iter().enumerate() {
            script.push_str(l);
            script.push('\n');
            ends.push(script.len() as u64);
            // lines are echoed when the parser reads them: command lines while
            // the shell is running, and everything up to the end of the input
            // once the parser is looking for a closing quote or parenthesis
            if verbose && !stderr_closed && ((!done && !u.data.contains(&i)) || eof_reader) {
                echoed.push_str(l);
                echoed.push('\n');
            }
        }
        if done {
            continue;
        }
        if let Some(v) = u.verbose {
            verbose = v;
            any_verbose |= v;
        }
        if u.closes_stderr {
            stderr_closed = true;
        }
        if u.to_eof {
            eof_reader = true;
        }
        reads_stdin |= u.reads_stdin;
        for o in &u.out {
            stdout.push_str(o);
            stdout.push('\n');
        }
        foreign_cum += u.foreign0 as u64;
        for (k, at) in &u.tells {
            tells.push((*k, ends[*at]));
            foreign.push((*k, foreign_cum));
        }
        if let Some(s) = u.status {
            status = s;
        }
        if u.error {
            has_error = true;
        }
        let goes_on = c.interactive && u.error && !u.to_eof;
        if u.exits && !goes_on {
            done = true;
        }
    }
    if c.no_final_newline && script.ends_with('\n') {
        script.pop();
        let len = script.len() as u64;
        for t in &mut tells {
            if t.1 > len {
                t.1 = len;
            }
        }
    }
    Expect {
        script,
        stdout,
        status,
        tells,
        foreign,
        interactive: c.interactive,
        reads_stdin,
        has_error,
        echoed: any_verbose.then_some(echoed),
    }
}

/// For a cut case: (the truncated script, the expectation for the units that
/// were delivered completely).
fn expect_cut(c: &Case, t: u32) -> (String, Expect) {
    let mut full = c.clone();
    full.cut = None;
    full.no_final_newline = false;
    let script = expect(&full).script;
    let t = (t as usize).min(script.len());
    // byte offsets are ASCII-safe only if the cut is on a character boundary
    let mut t = t;
    while !script.is_char_boundary(t) {
        t -= 1;
    }
    let mut len = 0usize;
    let mut complete = 0usize;
    for u in &c.units {
        len += u.lines.iter().map(|l| l.len() + 1).sum::<usize>();
        if len <= t {
            complete += 1;
        } else {
            break;
        }
    }
    let mut prefix = full.clone();
    prefix.units.truncate(complete);
    (script[..t].to_string(), expect(&prefix))
}

fn check_cut(prefix: &Expect, variant: Variant, obs: &Observed) -> Option<Viol> {
    if let Some(v) = check_liveness(obs) {
        return Some(v);
    }
    if !obs.stdout.starts_with(&prefix.stdout) {
        return Some((
            "trace".into(),
            format!("cut:trace:{variant:?}"),
            format!(
                "variant {variant:?}, input cut short: the completely delivered commands print {:?}, observed stdout {:?} status {}\nstderr {:?}",
                prefix.stdout, obs.stdout, obs.status, obs.stderr
            ),
        ));
    }
    // tells of the completely delivered units: executed, at the right offset
    let mut consumed: u64 = 0;
    let mut seen = Vec::new();
    for e in &obs.history {
        match e.kind.as_str() {
            "read" if e.pid == 2 && e.a == 0 => consumed += e.b as u64,
            "tell" if e.pid == 2 => {
                let k: u32 = e.text.trim().parse().unwrap_or(0);
                let Some(want) = prefix.tells.iter().find(|t| t.0 == k).map(|t| t.1) else {
                    continue;
                };
                if seen.contains(&k) {
                    // (the cut can turn `tell 12` of the partial line into `tell 1`)
                    continue;
                }
                seen.push(k);
                let foreign = prefix.foreign.iter().find(|t| t.0 == k).map(|t| t.1).unwrap_or(0);
                let got = if variant == Variant::FileStdin { e.a as u64 } else { consumed.saturating_sub(foreign) };
                if got != want {
                    return Some((
                        "read-ahead".into(),
                        format!("cut:read-ahead:{variant:?}"),
                        format!("variant {variant:?}, input cut short: at `tell {k}` the input offset is {got}, expected {want}"),
                    ));
                }
            }
            _ => {}
        }
    }
    let mut want: Vec<u32> = prefix.tells.iter().map(|t| t.0).collect();
    want.sort();
    seen.sort();
    seen.dedup();
    if want != seen {
        return Some((
            "trace".into(),
            "cut:trace:tells".into(),
            format!("input cut short: tell probes of the completely delivered commands executed {seen:?}, expected {want:?}"),
        ));
    }
    None
}

fn spec_of(exp: &Expect, variant: Variant) -> ScriptSpec {
    ScriptSpec {
        script: exp.script.clone(),
        dash_c: variant == Variant::DashC,
        as_file: variant == Variant::ScriptFile,
        options: if exp.interactive && matches!(variant, Variant::FileStdin | Variant::PipeStdin) { vec!["-i".into()] } else { Vec::new() },
        files: vec![
            ("/work/g1.txt".into(), b"1".to_vec(), 0o644),
            ("/work/g2.txt".into(), b"2".to_vec(), 0o644),
            (
                "/work/inc1.sh".into(),
                b"alias ia='echo IA'\nia inc\nread q r\necho \"[$q][$r]\"\n".to_vec(),
                0o644,
            ),
            ("/work/inc2.sh".into(), b"echo IB inc2\necho IB done\n".to_vec(), 0o644),
            (
                "/work/inc3.sh".into(),
                b"echo 'echo IC appended' >>/work/inc3.sh\necho IC original\n".to_vec(),
                0o644,
            ),
        ],
        ..Default::default()
    }
}

/// Replaces fd 0 of the shell by a pipe and starts the feeder process, which
/// writes the script in seeded chunk sizes, possibly sleeping in between.
fn plumb_feeder(w: &mut World, script: Vec<u8>) {
    let (r, wfd) = w.system.pipe().unwrap();
    w.system.dup2(r, Fd(0)).unwrap();
    w.system.close(r).unwrap();
    let body = w.system.state.borrow().processes[&Pid(2)].fds()[&wfd].clone();
    w.system.close(wfd).unwrap();
    w.spawn_aux(
        move |sys| {
            sys.current_process_mut().set_fd(Fd(1), body).ok();
        },
        move |conc: VS| async move {
            let ctl = ctl().expect("ctl");
            let mut pos = 0usize;
            while pos < script.len() {
                let rest = &script[pos..];
                let to_nl = rest.iter().position(|b| *b == b'\n').map_or(rest.len(), |p| p + 1);
                let n = {
                    let mut d = ctl.decider.borrow_mut();
                    match d.choose(tag::FEED, 8) {
                        0 => 1,
                        1 => 2,
                        2 => to_nl,
                        3 => to_nl.saturating_sub(1).max(1),
                        4 => to_nl + 1,
                        5 => 1 + d.choose(tag::FEED, 40) as usize,
                        6 => rest.len(),
                        _ => 3,
                    }
                }
                .min(rest.len())
                .max(1);
                ctl.count("feeder_chunks");
                if conc.write_all(Fd(1), &rest[..n]).await.is_err() {
                    ctl.count("feeder_epipe");
                    break;
                }
                pos += n;
                let nap = {
                    let mut d = ctl.decider.borrow_mut();
                    if d.chance(tag::FEED, 250) {
                        1 + d.choose(tag::FEED, 3) as u64
                    } else {
                        0
                    }
                };
                if nap > 0 {
                    ctl.count("feeder_naps");
                    conc.sleep(Duration::from_millis(nap)).await;
                }
            }
            conc.close(Fd(1)).ok();
            conc.exit(ExitStatus(0)).await;
        },
    );
}

fn draw_config(rng: &mut Rng, k: u32) -> SimConfig {
    let strategy = if k == 0 {
        Strategy::Fifo
    } else {
        match rng.below(10) {
            0..=4 => Strategy::Random,
            5..=6 => Strategy::Pct(rng.range(1, 3)),
            7 => Strategy::RoundRobin,
            _ => Strategy::FifoDev(*rng.pick(&[50u32, 200])),
        }
    };
    let (preempt, clamp) = if k == 0 {
        (0, 0)
    } else {
        (*rng.pick(&[0u32, 0, 10, 50, 200]), *rng.pick(&[0u32, 0, 100, 500]))
    };
    SimConfig {
        strategy,
        preempt_permille: preempt,
        clamp_permille: clamp,
        max_steps: 200_000,
        ..Default::default()
    }
}

type Viol = (String, String, String);

fn check_run(exp: &Expect, variant: Variant, obs: &Observed) -> Option<Viol> {
    if let Some(v) = check_liveness(obs) {
        return Some(v);
    }
    let want_status = format!("exited:{}", exp.status);
    // the verbose option echoes only input read through a descriptor
    let echoed = match (&exp.echoed, variant) {
        (Some(e), Variant::FileStdin | Variant::PipeStdin | Variant::ScriptFile) => e.as_str(),
        _ => "",
    };
    let stderr_ok = if exp.interactive && matches!(variant, Variant::FileStdin | Variant::PipeStdin) {
        // (prompts)
        true
    } else if exp.has_error {
        obs.stderr.starts_with(echoed) && obs.stderr.len() > echoed.len()
    } else {
        obs.stderr == echoed
    };
    if obs.stdout != exp.stdout || obs.status != want_status || !stderr_ok {
        return Some((
            "trace".into(),
            format!("trace:{variant:?}"),
            format!(
                "variant {variant:?}: expected stdout {:?} status {}\nobserved stdout {:?} status {}\nstderr {:?}",
                exp.stdout, want_status, obs.stdout, obs.status, obs.stderr
            ),
        ));
    }
    if matches!(variant, Variant::FileStdin | Variant::PipeStdin) {
        // no read-ahead: at every tell the input has been consumed exactly up
        // to the end of the command's last line
        let mut consumed_raw: u64 = 0;
        let mut seen = Vec::new();
        for e in &obs.history {
            match e.kind.as_str() {
                "read" if e.pid == 2 && e.a == 0 => consumed_raw += e.b as u64,
                "tell" if e.pid == 2 => {
                    let k: u32 = e.text.trim().parse().unwrap_or(0);
                    let want = exp.tells.iter().find(|t| t.0 == k).map(|t| t.1);
                    // (bytes a command read through a redirected descriptor 0
                    // are not input of the shell)
                    let foreign = exp.foreign.iter().find(|t| t.0 == k).map(|t| t.1).unwrap_or(0);
                    let consumed = consumed_raw.saturating_sub(foreign);
                    seen.push(k);
                    let got = if variant == Variant::FileStdin {
                        e.a as u64
                    } else {
                        consumed
                    };
                    if Some(got) != want {
                        return Some((
                            "read-ahead".into(),
                            format!("read-ahead:{variant:?}"),
                            format!(
                                "variant {variant:?}: at `tell {k}` the input offset is {got}, expected {want:?} (bytes read from fd 0 by the shell so far: {consumed})"
                            ),
                        ));
                    }
                    if variant == Variant::FileStdin && consumed != got {
                        return Some((
                            "read-ahead".into(),
                            "read-ahead:offset-vs-reads".into(),
                            format!("at `tell {k}` lseek says {got} but the shell has read {consumed} bytes"),
                        ));
                    }
                }
                _ => {}
            }
        }
        let mut want: Vec<u32> = exp.tells.iter().map(|t| t.0).collect();
        want.sort();
        seen.sort();
        seen.dedup();
        if want != seen {
            return Some((
                "trace".into(),
                "trace:tells".into(),
                format!("tell probes executed {seen:?}, expected {want:?}"),
            ));
        }
    }
    None
}

fn run_one(c: &Case, variant: Variant, cfg: &SimConfig, decider: Decider) -> (Observed, Option<Viol>) {
    if let Some(k) = c.eio {
        let mut plain = c.clone();
        plain.eio = None;
        plain.no_final_newline = false;
        let full = expect(&plain);
        let spec = spec_of(&full, Variant::FileStdin);
        let mut cfg = cfg.clone();
        cfg.fail_read_at = Some(k);
        cfg.fail_read_once = c.eio_once;
        cfg.fail_read_stdin_of = Some(2);
        let obs = run_script_with(&spec, &cfg, decider, |_| {}, |_, _| true);
        // what the shell had read when the error struck
        let consumed: u64 = obs
            .history
            .iter()
            .filter(|e| e.kind == "read" && e.pid == 2 && e.a == 0)
            .map(|e| e.b as u64)
            .sum();
        let (_, prefix) = expect_cut(&plain, consumed as u32);
        let mut v = check_cut(&prefix, Variant::FileStdin, &obs);
        if v.is_none() && obs.counters.get("eio").copied().unwrap_or(0) > 0 && obs.status == "exited:0" && !full.reads_stdin {
            // (a command reading the same input may swallow the error; the
            // shell's own reader must not)
            v = Some((
                "trace".into(),
                "eio:status".into(),
                format!("the shell's read of its input failed with EIO but it exited with status 0; stderr {:?}", obs.stderr),
            ));
        }
        if let Some(v) = &mut v {
            v.1 = format!("eio:{}", v.1);
        }
        return (obs, v);
    }
    if let Some(t) = c.cut {
        let (script, prefix) = expect_cut(c, t);
        let mut spec = spec_of(&prefix, variant);
        spec.script = script.clone();
        let bytes = script.into_bytes();
        let obs = run_script_with(
            &spec,
            cfg,
            decider,
            |w| {
                if variant == Variant::PipeStdin {
                    plumb_feeder(w, bytes);
                }
            },
            |_, _| true,
        );
        let v = check_cut(&prefix, variant, &obs);
        return (obs, v);
    }
    if variant == Variant::ScriptFile
        && let Some(j) = c.units.iter().position(|u| u.truncates_script)
    {
        // the script empties itself: the units up to that line run, nothing else
        let t: usize = c.units[..=j].iter().map(|u| u.lines.iter().map(|l| l.len() + 1).sum::<usize>()).sum();
        let mut plain = c.clone();
        plain.interactive = false;
        let (_, prefix) = expect_cut(&plain, t as u32);
        let full = expect(&plain);
        let mut spec = spec_of(&prefix, variant);
        spec.script = full.script.clone();
        let obs = run_script_with(&spec, cfg, decider, |_| {}, |_, _| true);
        // (the offsets of `tell` are those of descriptor 0, which is not the
        // script here: output and status only)
        let mut v = check_liveness(&obs);
        if v.is_none() && (obs.stdout != prefix.stdout || obs.status != format!("exited:{}", prefix.status)) {
            v = Some((
                "trace".into(),
                "self-truncated-script".into(),
                format!(
                    "the script file empties itself (`: >/work/script.sh`): the commands before that line print {:?} and nothing more is read (status {}); observed stdout {:?} status {}\nstderr {:?}",
                    prefix.stdout, prefix.status, obs.stdout, obs.status, obs.stderr
                ),
            ));
        }
        return (obs, v);
    }
    // (only a shell reading its standard input is made interactive)
    let plain;
    let c = if c.interactive && !matches!(variant, Variant::FileStdin | Variant::PipeStdin) {
        plain = Case { interactive: false, ..c.clone() };
        &plain
    } else {
        c
    };
    let exp = expect(c);
    let spec = spec_of(&exp, variant);
    let script = exp.script.clone().into_bytes();
    let plan = crate::shellrun::SigPlan {
        inject: c.trap && cfg.strategy != Strategy::Fifo,
        spaced: true,
        rate: 120,
        max: 3,
        second: 0,
    };
    let obs = run_script_with(
        &spec,
        cfg,
        decider,
        |w| {
            if variant == Variant::PipeStdin {
                plumb_feeder(w, script);
            }
        },
        crate::shellrun::signal_env(plan),
    );
    let mut v = check_run(&exp, variant, &obs);
    if v.is_none() && c.trap {
        // a trap action never runs more often than its signal was delivered
        let runs = obs.history.iter().filter(|e| e.kind == "mark" && e.pid == 2 && e.text.starts_with("tb ")).count();
        let dels = obs.history.iter().filter(|e| e.kind == "deliver").count();
        if runs > dels {
            v = Some((
                "trap-count".into(),
                "trap-count".into(),
                format!("{dels} signals were delivered while the shell read its input but the trap ran {runs} times"),
            ));
        }
    }
    (obs, v)
}

#[derive(Serialize, Deserialize)]
struct Stored {
    case: Case,
    variant: Variant,
}

fn failure(c: &Case, variant: Variant, cfg: &SimConfig, obs: &Observed, v: Viol) -> Failure {
    let shown = match c.cut {
        Some(t) => format!("{}<input ends here, after {t} bytes>", expect_cut(c, t).0),
        None => expect(c).script,
    };
    Failure {
        class: v.0,
        key: v.1,
        detail: format!("{}\n--- script ({variant:?}) ---\n{}", v.2, shown),
        case: serde_json::to_value(Stored {
            case: c.clone(),
            variant,
        })
        .unwrap(),
        cfg: cfg.clone(),
        decisions: obs.decisions.clone(),
        history_tail: history_tail(&obs.history, 40),
    }
}

pub struct C18;

impl Prop for C18 {
    fn id(&self) -> &'static str {
        "C18"
    }
    fn level(&self) -> &'static str {
        "exploration"
    }
    fn rule(&self) -> String {
        "Seeded scripts mixing commands with data lines consumed by `read` from the same input, alias definitions and `set -f`/`+f` affecting only later lines, multi-line compound commands, function definitions, line continuations, here-documents, eval, subshells/pipelines, a final consumer of the remaining input (relay/cat/while-read, also as a pipeline stage), `exit` followed by lines that must never be read, and syntax errors planted at later lines. Each script is fed (i) as a regular file on fd 0, (ii) through a pipe written by a simulated feeder process in seeded chunk sizes (1 byte .. whole script, ending inside tokens, at and around newlines) with seeded sleeps, under seeded schedules with preemption at every read, (iii) as a -c string and (iv) as a command file when it does not read stdin. Oracles: stdout/status equal to the generator's expectation in every variant; at every `tell` probe the input offset (lseek for files; bytes read from fd 0 by the shell, from kernel events, for pipes) equals the end of the command's last line. Distinct non-trivial = distinct (script, variant, schedule hash, fault count) with >= 2 processes or a fired fault. Added: here-documents in every newline position of the grammar, lines longer than 4 KiB with multi-byte characters, and two fault configurations with a prefix oracle - the input ends after a seeded number of bytes (short file / feeder closes the pipe), or the input file's reads fail with EIO from a seeded read on (also as a transient error of that one read, where only the shell's own reader reads the file). Also units with two redirections of descriptor 0 on one command (`read a <<E1 <<E2`): the command sees the last one, and afterwards the shell goes on reading its own input where it was. A fifth of the scripts are also fed to an interactive shell (`-i`, standard input variants; prompts on stderr are not compared): same commands, same offsets, and after a one-line syntax error (also one whose offending token is the newline) the shell goes on with the next line. Also: a dot script that appends a line to itself (read line by line while it runs), and scripts that close the standard error before switching the verbose option on (every line still runs).".into()
    }
    fn assumptions(&self) -> Vec<String> {
        vec![
            "decided relative to the repository's simulated kernel".into(),
            "sampling of scripts, chunkings and schedules, not enumeration".into(),
        ]
    }
    fn components(&self) -> Value {
        json!({
            "real": ["yash-cli startup::input::prepare_input", "FdReader2", "Echo decorator", "Lexer / Parser::command_line", "read_eval_loop", "read, alias, set, eval, exit built-ins", "VirtualSystem pipes/files"],
            "stub": ["feeder process (writes the script in seeded chunks)", "seeded scheduler", "tell/echo/relay/cat probes"]
        })
    }
    fn cases(&self, tier: Tier) -> u64 {
        match tier {
            Tier::Quick => 8000,
            Tier::Thorough => 50_000,
        }
    }

    fn run_case(&self, seed: u64, index: u64, tier: Tier, stats: &mut Stats) -> Option<Failure> {
        let mut rng = Rng::stream(seed, 18, index);
        let case = generate(&mut rng, tier);
        let exp = expect(&case);
        let case_hash = hash_str(&exp.script);
        let pipe_runs = match tier {
            Tier::Quick => 8,
            Tier::Thorough => 20,
        };
        let mut plan: Vec<(Variant, u32)> = vec![(Variant::FileStdin, 0)];
        for k in 1..=pipe_runs {
            plan.push((Variant::PipeStdin, k));
        }
        plan.push((Variant::FileStdin, pipe_runs + 1));
        if !exp.reads_stdin {
            plan.push((Variant::DashC, 0));
            plan.push((Variant::ScriptFile, 0));
        }
        for (variant, k) in plan {
            let cfg = draw_config(&mut rng, k);
            let decider = Decider::record(Rng::stream(seed, 1800 + k as u64, index));
            let (obs, v) = run_one(&case, variant, &cfg, decider);
            stats.note_run(
                case_hash ^ (variant as u64).wrapping_mul(0x9E37_79B9),
                &obs.outcome,
                obs.faults_fired + obs.counters.get("feeder_chunks").copied().unwrap_or(0),
            );
            stats.add_counters(&obs.counters);
            stats.digest(index, obs_digest(&obs));
            stats.count(
                match variant {
                    Variant::FileStdin => "variant:file-stdin",
                    Variant::PipeStdin => "variant:pipe-stdin",
                    Variant::DashC => "variant:dash-c",
                    Variant::ScriptFile => "variant:script-file",
                },
                1,
            );
            if exp.has_error {
                stats.count("runs_with_planted_syntax_error", 1);
            }
            if variant == Variant::PipeStdin && k == 1 && stats.samples.len() < 2 && index % 5 == 0 {
                stats.samples.push(json!({
                    "script": exp.script,
                    "expected_stdout": exp.stdout,
                    "expected_status": exp.status,
                    "expected_offsets_at_tell": exp.tells,
                    "variant": "pipe written by feeder",
                    "feeder_chunks": obs.counters.get("feeder_chunks"),
                    "steps": obs.outcome.steps,
                }));
            }
            if let Some(v) = v {
                stats.count("violating_runs", 1);
                return Some(failure(&case, variant, &cfg, &obs, v));
            }
        }
        // the input source dies at a seeded byte offset: what was delivered
        // completely has taken effect, nothing hangs
        let cut_runs = match tier {
            Tier::Quick => 2,
            Tier::Thorough => 6,
        };
        let replaces_input = case.units.iter().any(|u| u.lines.first().is_some_and(|l| l.starts_with("exec <")));
        if !case.trap && exp.script.len() > 2 && !replaces_input {
            for j in 0..cut_runs {
                let mut cut = case.clone();
                cut.interactive = false;
                cut.cut = Some(rng.range(1, exp.script.len() as u32 - 1));
                let variant = if j % 2 == 0 { Variant::PipeStdin } else { Variant::FileStdin };
                let cfg = draw_config(&mut rng, 1 + j);
                let (obs, v) = run_one(&cut, variant, &cfg, Decider::record(Rng::stream(seed, 1890 + j as u64, index)));
                stats.note_run(case_hash ^ 0xC07 ^ (j as u64) << 20, &obs.outcome, obs.faults_fired + 1);
                stats.add_counters(&obs.counters);
                stats.digest(index, obs_digest(&obs));
                stats.count("input_cut_short", 1);
                if let Some(v) = v {
                    stats.count("violating_runs", 1);
                    return Some(failure(&cut, variant, &cfg, &obs, v));
                }
            }
        }
        // a disk error: the k-th read of the input file fails with EIO
        let foreign0 = case.units.iter().any(|u| u.foreign0 > 0);
        if !case.trap && !replaces_input && !foreign0 {
            let reads = {
                let (obs, _) = run_one(&case, Variant::FileStdin, &SimConfig::default(), Decider::record(Rng::new(1)));
                obs.file_io.1
            };
            let eio_runs = match tier {
                Tier::Quick => 2,
                Tier::Thorough => 4,
            };
            for j in 0..eio_runs.min(reads) {
                let mut e = case.clone();
                e.interactive = false;
                e.eio = Some(1 + rng.below(reads));
                // (a transient error only where nothing but the shell's own
                // reader reads the file: a command hit by it would just fail)
                e.eio_once = j % 2 == 1 && !exp.reads_stdin;
                if e.eio_once {
                    stats.count("input_eio_transient", 1);
                }
                let cfg = draw_config(&mut rng, 1 + j);
                let (obs, v) = run_one(&e, Variant::FileStdin, &cfg, Decider::record(Rng::stream(seed, 1880 + j as u64, index)));
                stats.note_run(case_hash ^ 0xE10 ^ (j as u64) << 20, &obs.outcome, obs.faults_fired);
                stats.add_counters(&obs.counters);
                stats.digest(index, obs_digest(&obs));
                if let Some(v) = v {
                    stats.count("violating_runs", 1);
                    return Some(failure(&e, Variant::FileStdin, &cfg, &obs, v));
                }
            }
        }
        None
    }

    fn rerun(&self, case: &Value, cfg: &SimConfig, decisions: &[Decision]) -> Option<Failure> {
        let s: Stored = serde_json::from_value(case.clone()).ok()?;
        let (obs, v) = run_one(&s.case, s.variant, cfg, Decider::replay(decisions));
        v.map(|v| failure(&s.case, s.variant, cfg, &obs, v))
    }

    fn shrink(&self, case: &Value) -> Vec<Value> {
        let Ok(s) = serde_json::from_value::<Stored>(case.clone()) else {
            return Vec::new();
        };
        let mut out = Vec::new();
        // Units are self-contained except alias/function uses, `$v` and the
        // noglob state; removing a unit can invalidate later expectations, so
        // only units with no later dependants are removed: echo-like units
        // (no alias/function definition, no option or variable change).
        let first_exit = s
            .case
            .units
            .iter()
            .position(|u| u.exits)
            .unwrap_or(s.case.units.len());
        for i in 0..first_exit {
            let u = &s.case.units[i];
            let l0 = u.lines.first().map(String::as_str).unwrap_or("");
            let defines = l0.starts_with("trap ")
                || l0.starts_with("mark ")
                || l0.starts_with("alias ")
                || l0.starts_with("set ")
                || l0.starts_with("v=")
                || (l0.starts_with('f') && l0.ends_with("() {"));
            if defines || s.case.units.len() <= 1 {
                continue;
            }
            let mut c = s.case.clone();
            c.units.remove(i);
            out.push(
                serde_json::to_value(Stored {
                    case: c,
                    variant: s.variant,
                })
                .unwrap(),
            );
        }
        if s.case.no_final_newline {
            let mut c = s.case.clone();
            c.no_final_newline = false;
            out.push(
                serde_json::to_value(Stored {
                    case: c,
                    variant: s.variant,
                })
                .unwrap(),
            );
        }
        out
    }
}
