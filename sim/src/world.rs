//! World set-up (simulated file system, standard descriptors), the shell glue
//! equivalent to the private `yash_cli::run_as_shell_process`, and helpers to
//! read results back from the simulated OS.

use crate::sim::{RunOutcome, Sim, SimConfig};
use crate::rng::Decider;
use futures_util::FutureExt as _;
use std::cell::RefCell;
use std::collections::BTreeMap;
use std::ffi::CString;
use std::ops::ControlFlow::{Break, Continue};
use std::rc::Rc;
use yash_cli::startup::args::{Parse, Source};
use yash_cli::startup::init_file::run_rcfile;
use yash_cli::startup::input::prepare_input;
use yash_env::Env;
use yash_env::builtin::Builtin;
use yash_env::io::Fd;
use yash_env::job::Pid;
use yash_env::option::{Interactive, On};
use yash_env::semantics::{Divert, ExitStatus, exit_or_raise};
use yash_env::system::r#virtual::{FileBody, Inode, SystemState, VirtualSystem};
use yash_env::system::resource::GetRlimit;
use yash_env::system::{
    Chdir, Concurrent, Errno, GetCwd, GetUid, Mode, OfdAccess, Open, OpenFlag, Sysconf, TcGetPgrp,
    Times, Umask, Write,
};
use yash_env::system::{Close as _, Dup as _};
use yash_semantics::trap::run_exit_trap;
use yash_semantics::{Runtime, interactive_read_eval_loop, read_eval_loop};

pub type VS = Rc<Concurrent<VirtualSystem>>;

thread_local! {
    static WORLD: RefCell<Option<Rc<RefCell<SystemState>>>> = const { RefCell::new(None) };
    static CTL: RefCell<Option<Rc<crate::sim::SimCtl>>> = const { RefCell::new(None) };
}

/// The system state of the simulation currently running in this thread
/// (used by virtual-only probe built-ins).
pub fn world_state() -> Rc<RefCell<SystemState>> {
    WORLD.with(|w| w.borrow().clone().expect("no simulated world"))
}

pub fn ctl() -> Option<Rc<crate::sim::SimCtl>> {
    CTL.with(|c| c.borrow().clone())
}

pub fn dir_inode(mode: u32) -> Rc<RefCell<Inode>> {
    Rc::new(RefCell::new(Inode {
        body: FileBody::Directory {
            files: Default::default(),
        },
        permissions: Mode::from_bits_truncate(mode as _),
    }))
}

pub fn file_inode(content: &[u8], mode: u32) -> Rc<RefCell<Inode>> {
    Rc::new(RefCell::new(Inode {
        body: FileBody::Regular {
            content: content.to_vec(),
            is_native_executable: false,
        },
        permissions: Mode::from_bits_truncate(mode as _),
    }))
}

fn exe_inode() -> Rc<RefCell<Inode>> {
    Rc::new(RefCell::new(Inode {
        body: FileBody::Regular {
            content: Vec::new(),
            is_native_executable: true,
        },
        permissions: Mode::from_bits_truncate(0o755),
    }))
}

pub struct World {
    pub sim: Sim,
    pub system: VirtualSystem,
}

/// What to run as the main shell process.
#[derive(Clone, Debug, Default)]
pub struct ShellSpec {
    /// argv, e.g. ["sh", "-c", "script"] or ["sh"] (read stdin)
    pub args: Vec<String>,
    /// initial environment variables
    pub vars: Vec<(String, String)>,
}

impl World {
    /// Creates the simulated machine: file system with `/dev/null`, `/dev/tty`,
    /// `/bin/{true,false,pwd}` (so that the substitutive built-ins are found),
    /// `/tmp`, `/work` (the initial working directory of pid 2).
    pub fn new(cfg: SimConfig, decider: Decider) -> World {
        yash_env::system::r#virtual::sim_hook::reset_serials();
        let system = VirtualSystem::new();
        {
            let mut st = system.state.borrow_mut();
            let fs = &mut st.file_system;
            fs.save("/dev/null", file_inode(b"", 0o666)).unwrap();
            fs.save("/dev/tty", file_inode(b"", 0o666)).unwrap();
            for name in ["true", "false", "pwd"] {
                fs.save(format!("/bin/{name}").as_str(), exe_inode()).unwrap();
            }
            fs.save("/work", dir_inode(0o755)).unwrap();
            st.path = "/bin".into();
        }
        system.chdir(c"/work").unwrap();
        let state = Rc::clone(&system.state);
        let sim = Sim::new(Rc::clone(&state), cfg, decider);
        WORLD.with(|w| *w.borrow_mut() = Some(state));
        CTL.with(|c| *c.borrow_mut() = Some(Rc::clone(&sim.ctl)));
        World { sim, system }
    }

    pub fn state(&self) -> Rc<RefCell<SystemState>> {
        Rc::clone(&self.system.state)
    }

    pub fn put_file(&self, path: &str, content: &[u8], mode: u32) {
        self.system
            .state
            .borrow_mut()
            .file_system
            .save(path, file_inode(content, mode))
            .unwrap();
    }

    pub fn mkdir(&self, path: &str, mode: u32) {
        self.system
            .state
            .borrow_mut()
            .file_system
            .save(path, dir_inode(mode))
            .unwrap();
    }

    /// Replaces the content of the file behind the initial standard input.
    pub fn set_stdin(&self, content: &[u8]) {
        let inode = self
            .system
            .state
            .borrow()
            .file_system
            .get("/dev/stdin")
            .unwrap();
        inode.borrow_mut().body = FileBody::new(content.to_vec());
    }

    /// Starts the main shell process (pid 2) with the given arguments.
    pub fn spawn_shell(
        &mut self,
        spec: ShellSpec,
        probes: Vec<(&'static str, Builtin<VS>)>,
    ) {
        let conc: VS = Rc::new(Concurrent::new(self.system.clone()));
        let runner = Rc::clone(&conc);
        let task = async move {
            let mut env = Env::with_system(conc);
            run_as_shell_process(&mut env, spec, probes).await;
            exit_or_raise(&env.system, env.exit_status).await
        };
        let pid = self.system.process_id;
        self.sim
            .add_task(pid, Box::pin(async move { runner.run_virtual(task).await }));
    }

    /// Starts an auxiliary process (child of pid 1, not of the shell) running
    /// `body`; it must end by calling `exit`.
    pub fn spawn_aux<F, Fut>(&mut self, setup: impl FnOnce(&VirtualSystem), body: F) -> Pid
    where
        F: FnOnce(VS) -> Fut + 'static,
        Fut: Future<Output = ()> + 'static,
    {
        use yash_env::system::r#virtual::Process;
        let pid = {
            let mut st = self.system.state.borrow_mut();
            let pid = Pid(st.processes.keys().max().map_or(2, |p| p.0 + 1));
            let mut process = Process::with_parent_and_group(Pid(1), pid);
            process.chdir("/work".into());
            st.processes.insert(pid, process);
            pid
        };
        let system = VirtualSystem {
            state: Rc::clone(&self.system.state),
            process_id: pid,
        };
        setup(&system);
        let conc: VS = Rc::new(Concurrent::new(system));
        let runner = Rc::clone(&conc);
        self.sim.add_task(
            pid,
            Box::pin(async move { runner.run_virtual(body(conc)).await }),
        );
        pid
    }

    pub fn run(&mut self) -> RunOutcome {
        self.sim.run(|_, _| true)
    }

    pub fn read_file(&self, path: &str) -> Option<Vec<u8>> {
        let inode = self.system.state.borrow().file_system.get(path).ok()?;
        let inode = inode.borrow();
        match &inode.body {
            FileBody::Regular { content, .. } => Some(content.clone()),
            FileBody::Terminal { content } => Some(content.clone()),
            _ => None,
        }
    }

    pub fn stdout(&self) -> Vec<u8> {
        self.read_file("/dev/stdout").unwrap_or_default()
    }

    pub fn stderr(&self) -> Vec<u8> {
        self.read_file("/dev/stderr").unwrap_or_default()
    }

    /// Exit status of a process as recorded in the simulated process table.
    pub fn exit_status_of(&self, pid: Pid) -> Option<String> {
        let st = self.system.state.borrow();
        st.processes
            .get(&pid)
            .map(|p| crate::sim::state_name(p.state()))
    }

    /// Lists the tree below `root`: path -> (type, mode, content).
    pub fn tree(&self, root: &str) -> BTreeMap<String, (char, u32, Vec<u8>)> {
        fn walk(
            out: &mut BTreeMap<String, (char, u32, Vec<u8>)>,
            path: &str,
            inode: &Rc<RefCell<Inode>>,
        ) {
            let node = inode.borrow();
            let mode = node.permissions.bits() as u32;
            match &node.body {
                FileBody::Regular { content, .. } => {
                    out.insert(path.to_string(), ('f', mode, content.clone()));
                }
                FileBody::Directory { files } => {
                    out.insert(path.to_string(), ('d', mode, Vec::new()));
                    for (name, child) in files {
                        let name = String::from_utf8_lossy(name.as_bytes()).into_owned();
                        walk(out, &format!("{path}/{name}"), child);
                    }
                }
                FileBody::Fifo { .. } => {
                    out.insert(path.to_string(), ('p', mode, Vec::new()));
                }
                FileBody::Symlink { target } => {
                    out.insert(
                        path.to_string(),
                        ('l', mode, target.as_unix_str().as_bytes().to_vec()),
                    );
                }
                FileBody::Terminal { content } => {
                    out.insert(path.to_string(), ('t', mode, content.clone()));
                }
                _ => {}
            }
        }
        let mut out = BTreeMap::new();
        if let Ok(inode) = self.system.state.borrow().file_system.get(root) {
            walk(&mut out, root, &inode);
        }
        out
    }
}

impl Drop for World {
    fn drop(&mut self) {
        WORLD.with(|w| *w.borrow_mut() = None);
        CTL.with(|c| *c.borrow_mut() = None);
    }
}

/// Opens `path` in process `system` and moves it to descriptor `fd`.
pub fn open_at(system: &VirtualSystem, fd: Fd, path: &str, access: OfdAccess, flags: OpenFlag) {
    let c = CString::new(path).unwrap();
    let got = system
        .open(&c, access, flags.into(), Mode::from_bits_truncate(0o644))
        .now_or_never()
        .expect("open should not block")
        .expect("open failed");
    if got != fd {
        system.dup2(got, fd).unwrap();
        system.close(got).unwrap();
    }
}

/// The equivalent of the private `yash_cli::run_as_shell_process`, with the
/// argument vector and the initial variables passed in instead of being read
/// from the real process, and probe built-ins registered next to the real ones.
#[allow(clippy::await_holding_refcell_ref)]
pub async fn run_as_shell_process<S>(
    env: &mut Env<S>,
    spec: ShellSpec,
    probes: Vec<(&'static str, Builtin<S>)>,
) where
    S: Chdir
        + Clone
        + GetCwd
        + GetRlimit
        + GetUid
        + Runtime
        + Sysconf
        + TcGetPgrp
        + Times
        + Umask
        + Write
        + 'static,
{
    let run = match yash_cli::startup::args::parse(spec.args.iter().cloned()) {
        Ok(Parse::Run(run)) => run,
        Ok(_) => {
            env.exit_status = ExitStatus::SUCCESS;
            return;
        }
        Err(e) => {
            use yash_env::system::concurrency::WriteAll as _;
            env.system.print_error(&format!("sh: {e}\n")).await;
            env.exit_status = ExitStatus::ERROR;
            return;
        }
    };

    env.variables.extend_env(spec.vars.iter().cloned());

    let work = yash_cli::startup::configure_environment(env, run).await;
    env.builtins.extend(probes);

    let is_interactive = env.options.get(Interactive) == On;
    run_rcfile(env, work.rcfile).await;

    let ref_env = RefCell::new(env);
    let lexer = match prepare_input(&ref_env, &work.source).await {
        Ok(lexer) => lexer,
        Err(e) => {
            use yash_env::system::concurrency::WriteAll as _;
            let message = format!("sh: {e}\n");
            let mut env = ref_env.borrow_mut();
            env.system.print_error(&message).await;
            env.exit_status = match e.errno {
                Errno::ENOENT | Errno::ENOTDIR | Errno::EILSEQ => ExitStatus::NOT_FOUND,
                _ => ExitStatus::NOEXEC,
            };
            return;
        }
    };

    let result = if is_interactive {
        interactive_read_eval_loop(&ref_env, &mut { lexer }).await
    } else {
        read_eval_loop(&ref_env, &mut { lexer }).await
    };

    let env = ref_env.into_inner();
    env.apply_result(result);

    match result {
        Continue(())
        | Break(Divert::Continue { .. })
        | Break(Divert::Break { .. })
        | Break(Divert::Return(_))
        | Break(Divert::Interrupt(_))
        | Break(Divert::Exit(_)) => run_exit_trap(env).await,
        Break(Divert::Abort(_)) => (),
    }
    let _ = Source::Stdin;
}
