//! Probe built-ins registered next to the real built-ins.
//!
//! External utilities cannot run in the simulated OS (`execve` is `ENOSYS` by
//! design), so workloads are made of the real built-ins plus these probes.
//! Probes that only use system traits are generic over the system type and
//! are also used on the real kernel (C19); probes that inspect the simulated
//! process table are specific to `VirtualSystem`.

use crate::world::{VS, ctl, world_state};
use std::pin::Pin;
use std::time::Duration;
use yash_env::Env;
use yash_env::builtin::{Builtin, Result as BResult, Type};
use yash_env::io::Fd;
use yash_env::semantics::{ExitStatus, Field};
use yash_env::system::concurrency::{Sleep, WriteAll};
use yash_env::system::{Close, Errno, GetPid, Mode, OfdAccess, Open, Read, SendSignal, Signals, Write};

type BFut<'a> = Pin<Box<dyn Future<Output = BResult> + 'a>>;

fn strs(args: &[Field]) -> Vec<&str> {
    args.iter().map(|f| f.value.as_str()).collect()
}

fn mix(s: u64, i: u64) -> u64 {
    let mut x = s
        .wrapping_mul(0x9E37_79B9_7F4A_7C15)
        .wrapping_add(i.wrapping_mul(0xD1B5_4A32_D192_ED03));
    x ^= x >> 29;
    x = x.wrapping_mul(0xBF58_476D_1CE4_E5B9);
    x ^= x >> 32;
    x
}

/// Deterministic stream `S` of `n` units in the given alphabet, as bytes.
///
/// 0: printable ASCII without newline; 1: lower-case letters with embedded
/// newlines; 2: arbitrary non-NUL bytes; 3: multi-byte UTF-8 characters (a unit
/// is a character, so chunk boundaries split characters); 4: white-space rich
/// text (ASCII and Unicode blanks, CR, VT, FF next to newlines).
pub fn stream_bytes(s: u64, n: usize, alphabet: u8) -> Vec<u8> {
    let mut out = Vec::with_capacity(n);
    for i in 0..n as u64 {
        let x = mix(s, i);
        match alphabet {
            0 => out.push(b'!' + (x % 90) as u8),
            1 => out.push(if x % 7 == 0 { b'\n' } else { b'a' + (x % 26) as u8 }),
            2 => out.push(1 + (x % 255) as u8),
            // (lower-case / upper-case letters: the bytes of two concurrent
            // writers can be told apart)
            6 => out.push(b'a' + (x % 26) as u8),
            7 => out.push(b'A' + (x % 26) as u8),
            4 => {
                // white-space rich: blanks of every kind next to newlines
                const WS: [&str; 14] = [
                    "a", " ", "\t", "\n", "\r", "\u{b}", "\u{c}", "\u{a0}", "\u{3000}", "\u{2028}",
                    "b", "\n", " ", "\u{85}",
                ];
                out.extend_from_slice(WS[(x % 14) as usize].as_bytes());
            }
            _ => {
                const CHARS: [&str; 8] = ["a", "\u{e9}", "\u{3042}", "\u{1F600}", "z", "\n", "\u{df}", "\u{20AC}"];
                out.extend_from_slice(CHARS[(x % 8) as usize].as_bytes());
            }
        }
    }
    out
}

/// Summary printed by `sink`: length, first offset deviating from the
/// expected stream (-1 if it is a prefix-exact match), hash.
pub fn sink_summary(data: &[u8], s: u64, alphabet: u8) -> String {
    // the expected stream, long enough to cover the data
    let mut units = data.len();
    let mut expected = stream_bytes(s, units, alphabet);
    while expected.len() < data.len() {
        units = units * 2 + 8;
        expected = stream_bytes(s, units, alphabet);
    }
    let bad = data
        .iter()
        .zip(expected.iter())
        .position(|(a, b)| a != b)
        .map_or(-1, |p| p as i64);
    format!(
        "len={} bad={} hash={:016x}\n",
        data.len(),
        bad,
        crate::rng::fnv1a(data)
    )
}

async fn write_out<S: WriteAll>(env: &mut Env<S>, fd: Fd, data: &[u8]) -> ExitStatus {
    match env.system.write_all(fd, data).await {
        Ok(()) => ExitStatus::SUCCESS,
        Err(_) => ExitStatus::FAILURE,
    }
}

/// `echo args...` - joins with spaces, appends a newline, writes to fd 1.
fn echo_main<S: WriteAll>(env: &mut Env<S>, args: Vec<Field>) -> BFut<'_> {
    Box::pin(async move {
        let mut s = strs(&args).join(" ");
        s.push('\n');
        BResult::new(write_out(env, Fd::STDOUT, s.as_bytes()).await)
    })
}

/// `printn args...` - like echo without the trailing newline.
fn printn_main<S: WriteAll>(env: &mut Env<S>, args: Vec<Field>) -> BFut<'_> {
    Box::pin(async move {
        let s = strs(&args).join(" ");
        BResult::new(write_out(env, Fd::STDOUT, s.as_bytes()).await)
    })
}

/// `rc N` - returns exit status N.
fn rc_main<S>(_env: &mut Env<S>, args: Vec<Field>) -> BFut<'_> {
    let n = args.first().and_then(|f| f.value.parse().ok()).unwrap_or(0);
    Box::pin(std::future::ready(BResult::new(ExitStatus(n))))
}

/// `mypid` - prints the real process id of the calling process.
fn mypid_main<S: WriteAll + GetPid>(env: &mut Env<S>, _args: Vec<Field>) -> BFut<'_> {
    Box::pin(async move {
        let s = format!("{}\n", env.system.getpid());
        BResult::new(write_out(env, Fd::STDOUT, s.as_bytes()).await)
    })
}

/// `penv` - prints the environment an external utility would be started with
/// (sorted, one line).
fn penv_main<S: WriteAll>(env: &mut Env<S>, _args: Vec<Field>) -> BFut<'_> {
    Box::pin(async move {
        let mut e: Vec<String> = env.variables.env_c_strings().iter().map(|c| c.to_string_lossy().into_owned()).collect();
        e.sort();
        let s = format!("env: {}\n", e.join(" "));
        BResult::new(write_out(env, Fd::STDOUT, s.as_bytes()).await)
    })
}

/// `fdl` - prints the open descriptors below 24 of the calling process as
/// `fdl: 0 1 2 10c` (c = close-on-exec), found with fcntl(F_GETFD); works on
/// both systems. Leaves `$?` unchanged.
fn fdl_main<S: WriteAll + yash_env::system::Fcntl>(env: &mut Env<S>, _args: Vec<Field>) -> BFut<'_> {
    Box::pin(async move {
        let mut s = String::from("fdl:");
        for fd in 0..24 {
            if let Ok(flags) = env.system.fcntl_getfd(Fd(fd)) {
                s.push_str(&format!(
                    " {fd}{}",
                    if flags.contains(yash_env::system::FdFlag::CloseOnExec) { "c" } else { "" }
                ));
            }
        }
        s.push('\n');
        let st = env.exit_status;
        match write_out(env, Fd::STDOUT, s.as_bytes()).await {
            ExitStatus::SUCCESS => BResult::new(st),
            other => BResult::new(other),
        }
    })
}

/// `nap MS` - sleeps for MS simulated milliseconds.
fn nap_main<S: Sleep>(env: &mut Env<S>, args: Vec<Field>) -> BFut<'_> {
    let ms: u64 = args.first().and_then(|f| f.value.parse().ok()).unwrap_or(1);
    Box::pin(async move {
        env.system.sleep(Duration::from_millis(ms)).await;
        BResult::new(ExitStatus::SUCCESS)
    })
}

/// `gen N S [CHUNK [ALPHABET [TRAILING_NEWLINES]]]` - writes N bytes of stream
/// S to fd 1 in chunks of CHUNK, followed by TRAILING_NEWLINES newlines.
fn gen_main<S: WriteAll>(env: &mut Env<S>, args: Vec<Field>) -> BFut<'_> {
    Box::pin(async move {
        let a = strs(&args);
        let n: usize = a.first().and_then(|s| s.parse().ok()).unwrap_or(0);
        let s: u64 = a.get(1).and_then(|s| s.parse().ok()).unwrap_or(0);
        let chunk: usize = a.get(2).and_then(|s| s.parse().ok()).unwrap_or(4096).max(1);
        let alphabet: u8 = a.get(3).and_then(|s| s.parse().ok()).unwrap_or(0);
        let trailing: usize = a.get(4).and_then(|s| s.parse().ok()).unwrap_or(0);
        let mut data = stream_bytes(s, n, alphabet);
        data.extend(std::iter::repeat_n(b'\n', trailing));
        for part in data.chunks(chunk) {
            if env.system.write_all(Fd::STDOUT, part).await.is_err() {
                return BResult::new(ExitStatus::FAILURE);
            }
        }
        BResult::new(ExitStatus::SUCCESS)
    })
}

async fn read_some<S: Read>(env: &mut Env<S>, buf: &mut [u8]) -> Result<usize, Errno> {
    loop {
        match env.system.read(Fd::STDIN, buf).await {
            Err(Errno::EINTR) => continue,
            r => return r,
        }
    }
}

/// `relay [BUF [LIMIT]]` - copies stdin to stdout using a buffer of BUF bytes;
/// stops after LIMIT bytes if given (an early-exiting reader).
fn relay_main<S: WriteAll + Read>(env: &mut Env<S>, args: Vec<Field>) -> BFut<'_> {
    Box::pin(async move {
        let a = strs(&args);
        let b: usize = a.first().and_then(|s| s.parse().ok()).unwrap_or(512).max(1);
        let limit: Option<usize> = a.get(1).and_then(|s| s.parse().ok());
        let mut buf = vec![0u8; b];
        let mut total = 0usize;
        loop {
            if let Some(l) = limit
                && total >= l
            {
                return BResult::new(ExitStatus::SUCCESS);
            }
            match read_some(env, &mut buf).await {
                Ok(0) => return BResult::new(ExitStatus::SUCCESS),
                Ok(n) => {
                    total += n;
                    if env.system.write_all(Fd::STDOUT, &buf[..n]).await.is_err() {
                        return BResult::new(ExitStatus::FAILURE);
                    }
                }
                Err(_) => return BResult::new(ExitStatus::FAILURE),
            }
        }
    })
}

/// `sink S [ALPHABET [BUF]]` - reads stdin to EOF and prints
/// `len=<n> bad=<first offset deviating from stream S or -1> hash=<fnv>`.
fn sink_main<S: WriteAll + Read>(env: &mut Env<S>, args: Vec<Field>) -> BFut<'_> {
    Box::pin(async move {
        let a = strs(&args);
        let s: u64 = a.first().and_then(|s| s.parse().ok()).unwrap_or(0);
        let alphabet: u8 = a.get(1).and_then(|s| s.parse().ok()).unwrap_or(0);
        let b: usize = a.get(2).and_then(|s| s.parse().ok()).unwrap_or(300).max(1);
        let mut buf = vec![0u8; b];
        let mut data = Vec::new();
        loop {
            match read_some(env, &mut buf).await {
                Ok(0) => break,
                Ok(n) => data.extend_from_slice(&buf[..n]),
                Err(e) => {
                    let msg = format!("sink: read error {e}\n");
                    write_out(env, Fd::STDOUT, msg.as_bytes()).await;
                    return BResult::new(ExitStatus::FAILURE);
                }
            }
        }
        let msg = sink_summary(&data, s, alphabet);
        BResult::new(write_out(env, Fd::STDOUT, msg.as_bytes()).await)
    })
}

/// `demux SA SB [BUF]` - reads stdin to EOF, takes the lower-case letters as
/// stream SA (alphabet 6) and everything else as stream SB (alphabet 7),
/// and prints `A len=<n> bad=<first deviating offset or -1> B len=<n> bad=<...>`:
/// whatever the interleaving of two writers, each one's bytes arrive in order.
fn demux_main<S: WriteAll + Read>(env: &mut Env<S>, args: Vec<Field>) -> BFut<'_> {
    Box::pin(async move {
        let a = strs(&args);
        let sa: u64 = a.first().and_then(|s| s.parse().ok()).unwrap_or(0);
        let sb: u64 = a.get(1).and_then(|s| s.parse().ok()).unwrap_or(0);
        let b: usize = a.get(2).and_then(|s| s.parse().ok()).unwrap_or(300).max(1);
        let mut buf = vec![0u8; b];
        let (mut da, mut db) = (Vec::new(), Vec::new());
        loop {
            match read_some(env, &mut buf).await {
                Ok(0) => break,
                Ok(n) => {
                    for x in &buf[..n] {
                        if x.is_ascii_lowercase() { da.push(*x) } else { db.push(*x) }
                    }
                }
                Err(e) => {
                    let msg = format!("demux: read error {e}\n");
                    write_out(env, Fd::STDOUT, msg.as_bytes()).await;
                    return BResult::new(ExitStatus::FAILURE);
                }
            }
        }
        let bad = |d: &[u8], s: u64, al: u8| -> i64 {
            let e = stream_bytes(s, d.len(), al);
            d.iter().zip(e.iter()).position(|(x, y)| x != y).map_or(-1, |p| p as i64)
        };
        let msg = format!(
            "A len={} bad={} B len={} bad={}\n",
            da.len(),
            bad(&da, sa, 6),
            db.len(),
            bad(&db, sb, 7)
        );
        BResult::new(write_out(env, Fd::STDOUT, msg.as_bytes()).await)
    })
}

/// `tally [BUF]` - reads stdin to EOF and prints the order-insensitive summary
/// `len=<n> sum=<sum of bytes> sq=<sum of squared bytes>`.
fn tally_main<S: WriteAll + Read>(env: &mut Env<S>, args: Vec<Field>) -> BFut<'_> {
    Box::pin(async move {
        let b: usize = args.first().and_then(|f| f.value.parse().ok()).unwrap_or(300).max(1);
        let mut buf = vec![0u8; b];
        let (mut len, mut sum, mut sq) = (0u64, 0u64, 0u64);
        loop {
            match read_some(env, &mut buf).await {
                Ok(0) => break,
                Ok(n) => {
                    for x in &buf[..n] {
                        len += 1;
                        sum += *x as u64;
                        sq += (*x as u64) * (*x as u64);
                    }
                }
                Err(e) => {
                    let msg = format!("tally: read error {e}\n");
                    write_out(env, Fd::STDOUT, msg.as_bytes()).await;
                    return BResult::new(ExitStatus::FAILURE);
                }
            }
        }
        let msg = format!("len={len} sum={sum} sq={sq}\n");
        BResult::new(write_out(env, Fd::STDOUT, msg.as_bytes()).await)
    })
}

/// `strhash STRING` - prints `len=<bytes> hash=<fnv>` of its argument.
fn strhash_main<S: WriteAll>(env: &mut Env<S>, args: Vec<Field>) -> BFut<'_> {
    Box::pin(async move {
        let v = args.first().map(|f| f.value.clone()).unwrap_or_default();
        let msg = format!(
            "len={} hash={:016x}\n",
            v.len(),
            crate::rng::fnv1a(v.as_bytes())
        );
        BResult::new(write_out(env, Fd::STDOUT, msg.as_bytes()).await)
    })
}

/// `cat [FILE...]` - copies the files (or stdin) to stdout.
fn cat_main<S: WriteAll + Read + Open + Close>(env: &mut Env<S>, args: Vec<Field>) -> BFut<'_> {
    cat_impl(env, args, false)
}

/// `catfd N` - copies descriptor N to stdout.
fn catfd_main<S: WriteAll + Read + Open + Close>(env: &mut Env<S>, args: Vec<Field>) -> BFut<'_> {
    cat_impl(env, args, true)
}

fn cat_impl<S: WriteAll + Read + Open + Close>(
    env: &mut Env<S>,
    args: Vec<Field>,
    fd_mode: bool,
) -> BFut<'_> {
    Box::pin(async move {
        let mut status = ExitStatus::SUCCESS;
        let mut fds = Vec::new();
        if args.is_empty() {
            fds.push((Fd::STDIN, false));
        }
        let from_fd = fd_mode.then(|| args.first().and_then(|a| a.value.parse().ok()).unwrap_or(0));
        if let Some(n) = from_fd {
            fds.push((Fd(n), false));
        }
        for a in args.iter().skip(if fd_mode { usize::MAX } else { 0 }) {
            let Ok(c) = std::ffi::CString::new(a.value.as_str()) else {
                status = ExitStatus::FAILURE;
                continue;
            };
            match env
                .system
                .open(&c, OfdAccess::ReadOnly, Default::default(), Mode::empty())
                .await
            {
                Ok(fd) => fds.push((fd, true)),
                Err(e) => {
                    let msg = format!("cat: {}: {e}\n", a.value);
                    env.system.write_all(Fd::STDERR, msg.as_bytes()).await.ok();
                    status = ExitStatus::FAILURE;
                }
            }
        }
        let mut buf = vec![0u8; 777];
        for (fd, close) in fds {
            loop {
                match env.system.read(fd, &mut buf).await {
                    Ok(0) => break,
                    Ok(n) => {
                        if env.system.write_all(Fd::STDOUT, &buf[..n]).await.is_err() {
                            status = ExitStatus::FAILURE;
                            break;
                        }
                    }
                    Err(Errno::EINTR) => continue,
                    Err(_) => {
                        status = ExitStatus::FAILURE;
                        break;
                    }
                }
            }
            if close {
                env.system.close(fd).ok();
            }
        }
        BResult::new(status)
    })
}

/// `recs CH COUNT LEN` - writes COUNT records, each LEN-1 bytes of character CH
/// plus a newline, one write per record (LEN <= PIPE_BUF makes each atomic).
fn recs_main<S: WriteAll + Write>(env: &mut Env<S>, args: Vec<Field>) -> BFut<'_> {
    Box::pin(async move {
        let a = strs(&args);
        let ch = a.first().and_then(|s| s.bytes().next()).unwrap_or(b'A');
        let count: usize = a.get(1).and_then(|s| s.parse().ok()).unwrap_or(1);
        let len: usize = a.get(2).and_then(|s| s.parse().ok()).unwrap_or(8).max(2);
        let mut rec = vec![ch; len - 1];
        rec.push(b'\n');
        for _ in 0..count {
            // a single write call per record: a pipe write of at most PIPE_BUF
            // bytes is all-or-nothing
            let mut done = 0;
            while done < rec.len() {
                match env.system.write(Fd::STDOUT, &rec[done..]).await {
                    Ok(n) => done += n,
                    Err(Errno::EINTR) => continue,
                    Err(_) => return BResult::new(ExitStatus::FAILURE),
                }
            }
        }
        BResult::new(ExitStatus::SUCCESS)
    })
}

/// `recsink LEN` - reads records of LEN bytes from stdin and prints how many
/// records of each character arrived and how many were torn (mixed content).
fn recsink_main<S: WriteAll + Read>(env: &mut Env<S>, args: Vec<Field>) -> BFut<'_> {
    Box::pin(async move {
        let len: usize = args.first().and_then(|f| f.value.parse().ok()).unwrap_or(8).max(2);
        let mut data = Vec::new();
        let mut buf = vec![0u8; 333];
        loop {
            match read_some(env, &mut buf).await {
                Ok(0) => break,
                Ok(n) => data.extend_from_slice(&buf[..n]),
                Err(_) => return BResult::new(ExitStatus::FAILURE),
            }
        }
        let mut counts: std::collections::BTreeMap<u8, usize> = Default::default();
        let mut torn = 0;
        for rec in data.chunks(len) {
            let body = &rec[..rec.len().saturating_sub(1)];
            let ok = rec.len() == len && rec[len - 1] == b'\n' && body.iter().all(|b| *b == body[0]);
            if ok {
                *counts.entry(body[0]).or_insert(0) += 1;
            } else {
                torn += 1;
            }
        }
        let mut msg = format!("bytes={} torn={torn}", data.len());
        for (c, n) in counts {
            msg.push_str(&format!(" {}={n}", c as char));
        }
        msg.push('\n');
        BResult::new(write_out(env, Fd::STDOUT, msg.as_bytes()).await)
    })
}

/// `selfkill NAME` - the calling process sends itself the named signal
/// (TERM, KILL, INT, HUP, USR1, ...).
fn selfkill_main<S: SendSignal + Signals>(env: &mut Env<S>, args: Vec<Field>) -> BFut<'_> {
    Box::pin(async move {
        let name = args.first().map(|f| f.value.clone()).unwrap_or_default();
        let sig = match name.as_str() {
            "KILL" => S::SIGKILL,
            "INT" => S::SIGINT,
            "HUP" => S::SIGHUP,
            "QUIT" => S::SIGQUIT,
            "USR1" => S::SIGUSR1,
            "USR2" => S::SIGUSR2,
            _ => S::SIGTERM,
        };
        env.system.raise(sig).await.ok();
        BResult::new(ExitStatus::SUCCESS)
    })
}

/// Probes that work on any system (also used on the real kernel).
pub fn generic_probes<S>() -> Vec<(&'static str, Builtin<S>)>
where
    S: WriteAll + Write + Read + GetPid + Sleep + Open + Close + SendSignal + Signals + yash_env::system::Fcntl + 'static,
{
    vec![
        ("fdl", Builtin::new(Type::Mandatory, fdl_main)),
        ("penv", Builtin::new(Type::Mandatory, penv_main)),
        ("selfkill", Builtin::new(Type::Mandatory, selfkill_main)),
        ("recs", Builtin::new(Type::Mandatory, recs_main)),
        ("recsink", Builtin::new(Type::Mandatory, recsink_main)),
        ("tally", Builtin::new(Type::Mandatory, tally_main)),
        ("demux", Builtin::new(Type::Mandatory, demux_main)),
        ("cat", Builtin::new(Type::Mandatory, cat_main)),
        ("catfd", Builtin::new(Type::Mandatory, catfd_main)),
        ("echo", Builtin::new(Type::Mandatory, echo_main)),
        ("printn", Builtin::new(Type::Mandatory, printn_main)),
        ("rc", Builtin::new(Type::Mandatory, rc_main)),
        ("mypid", Builtin::new(Type::Mandatory, mypid_main)),
        ("nap", Builtin::new(Type::Mandatory, nap_main)),
        ("gen", Builtin::new(Type::Mandatory, gen_main)),
        ("relay", Builtin::new(Type::Mandatory, relay_main)),
        ("sink", Builtin::new(Type::Mandatory, sink_main)),
        ("strhash", Builtin::new(Type::Mandatory, strhash_main)),
    ]
}

// ---------------------------------------------------------------------------
// Virtual-only probes
// ---------------------------------------------------------------------------

/// `mark TEXT...` - records `TEXT ?=<$?>` in the simulator's history together
/// with the real pid; leaves `$?` unchanged.
fn mark_main(env: &mut Env<VS>, args: Vec<Field>) -> BFut<'_> {
    let text = format!("{} ?={}", strs(&args).join(" "), env.exit_status.0);
    let pid = env.system.getpid().0;
    if let Some(ctl) = ctl() {
        ctl.record(pid, "mark", 0, 0, &text);
    }
    let st = env.exit_status;
    Box::pin(std::future::ready(BResult::new(st)))
}

/// Serialises the descriptor table of process `pid`:
/// `fd:ofd#<k>[c]` where k numbers open file descriptions in order of first
/// appearance in this listing (so equal numbers = shared description).
pub fn fd_table(pid: yash_env::job::Pid) -> Vec<(i32, usize, bool)> {
    let state = world_state();
    let st = state.borrow();
    let Some(p) = st.processes.get(&pid) else {
        return Vec::new();
    };
    p.fds()
        .iter()
        .map(|(fd, body)| {
            (
                fd.0,
                std::rc::Rc::as_ptr(&body.open_file_description) as usize,
                body.flags.contains(yash_env::system::FdFlag::CloseOnExec),
            )
        })
        .collect()
}

/// `fds` - prints the descriptor table of the calling process to fd 1 as
/// `fds: 0 1 2 10c ...` (c = close-on-exec).
fn fds_main(env: &mut Env<VS>, _args: Vec<Field>) -> BFut<'_> {
    Box::pin(async move {
        let pid = env.system.getpid();
        let t = fd_table(pid);
        let mut s = String::from("fds:");
        for (fd, _, cloexec) in t {
            s.push_str(&format!(" {fd}{}", if cloexec { "c" } else { "" }));
        }
        s.push('\n');
        // leaves `$?` unchanged (unless the line cannot be written)
        let st = env.exit_status;
        match write_out(env, Fd::STDOUT, s.as_bytes()).await {
            ExitStatus::SUCCESS => BResult::new(st),
            other => BResult::new(other),
        }
    })
}

/// `tell K` - records the current offset of standard input (or -1 if it is not
/// seekable) in the simulator's history; leaves `$?` unchanged.
fn tell_main(env: &mut Env<VS>, args: Vec<Field>) -> BFut<'_> {
    use yash_env::system::Seek as _;
    let off = env
        .system
        .lseek(Fd::STDIN, std::io::SeekFrom::Current(0))
        .map_or(-1, |o| o as i64);
    let pid = env.system.getpid().0;
    if let Some(ctl) = ctl() {
        ctl.record(pid, "tell", off, 0, &strs(&args).join(" "));
    }
    let st = env.exit_status;
    Box::pin(std::future::ready(BResult::new(st)))
}

/// Descriptor table of `pid` with the /work directory listing, as text:
/// `fd,ofd-serial,cloexec,inode-ptr,readable,writable;...|name=inode-ptr;...`
/// (inode pointers are only compared within one snapshot and are replaced by
/// small numbers so that the text is the same in every process).
pub fn table_text(pid: yash_env::job::Pid) -> String {
    use yash_env::system::r#virtual::FileBody;
    let state = world_state();
    let st = state.borrow();
    let mut ids: std::collections::BTreeMap<usize, usize> = Default::default();
    let mut names: Vec<(String, usize)> = Vec::new();
    if let Ok(dir) = st.file_system.get("/work")
        && let FileBody::Directory { files } = &dir.borrow().body
    {
        for (name, inode) in files {
            names.push((
                String::from_utf8_lossy(name.as_bytes()).into_owned(),
                std::rc::Rc::as_ptr(inode) as *const u8 as usize,
            ));
        }
    }
    names.sort();
    for (_, p) in &names {
        let n = ids.len() + 1;
        ids.entry(*p).or_insert(n);
    }
    let mut s = String::new();
    if let Some(p) = st.processes.get(&pid) {
        for (fd, body) in p.fds() {
            let ofd = body.open_file_description.borrow();
            let ino = std::rc::Rc::as_ptr(ofd.inode()) as *const u8 as usize;
            let n = ids.len() + 1;
            let ino_id = *ids.entry(ino).or_insert(n);
            s.push_str(&format!(
                "{},{},{},{},{},{};",
                fd.0,
                ofd.serial(),
                body.flags.contains(yash_env::system::FdFlag::CloseOnExec) as u8,
                ino_id,
                ofd.is_readable() as u8,
                ofd.is_writable() as u8
            ));
        }
    }
    s.push('|');
    for (name, p) in &names {
        s.push_str(&format!("{name}={};", ids[p]));
    }
    s
}

/// `io OP...` - I/O through descriptors, recorded in the simulator's history.
/// `t:LABEL` records the descriptor table and `$?`; `wN:TEXT` writes TEXT and a
/// newline to descriptor N; `rN` reads one line from descriptor N. Always
/// returns 0.
fn io_main(env: &mut Env<VS>, args: Vec<Field>) -> BFut<'_> {
    Box::pin(async move {
        let pid = env.system.getpid();
        let status = env.exit_status.0;
        let mut k: i64 = 0;
        for a in strs(&args) {
            if let Some(label) = a.strip_prefix("t:") {
                k = label.trim_start_matches(|c: char| c.is_alphabetic()).parse().unwrap_or(0);
                if let Some(ctl) = ctl() {
                    ctl.record(pid.0, "iot", k, 0, &format!("{label}|{status}|{}", table_text(pid)));
                }
            } else if let Some(rest) = a.strip_prefix('w') {
                let (fd, text) = rest.split_once(':').unwrap_or((rest, ""));
                let fd = Fd(fd.parse().unwrap_or(1));
                let data = format!("{text}\n");
                let r = env.system.write_all(fd, data.as_bytes()).await;
                if let Some(ctl) = ctl() {
                    ctl.record(pid.0, "io", k, 0, &format!("w{}:{}", fd.0, if r.is_ok() { "ok" } else { "err" }));
                }
            } else if let Some(rest) = a.strip_prefix('r') {
                let fd = Fd(rest.parse().unwrap_or(0));
                let mut line = Vec::new();
                let mut res = "ok";
                loop {
                    let mut b = [0u8; 1];
                    match env.system.read(fd, &mut b).await {
                        Ok(0) => {
                            if line.is_empty() {
                                res = "eof";
                            }
                            break;
                        }
                        Ok(_) => {
                            if b[0] == b'\n' {
                                break;
                            }
                            line.push(b[0]);
                        }
                        Err(Errno::EINTR) => continue,
                        Err(_) => {
                            res = "err";
                            break;
                        }
                    }
                }
                let text = match res {
                    "ok" => format!("r{}:{}", fd.0, String::from_utf8_lossy(&line)),
                    other => format!("r{}:{other}", fd.0),
                };
                if let Some(ctl) = ctl() {
                    ctl.record(pid.0, "io", k, 0, &text);
                }
            }
        }
        BResult::new(ExitStatus::SUCCESS)
    })
}

/// Serialises the complete shell state of the caller: every field of `Env`
/// that a script can change plus the simulated process (cwd, umask,
/// descriptor table, dispositions, mask, NOFILE limit). One `key=value` per
/// line, sorted. SIGCHLD is left out of dispositions and mask (the shell
/// installs its own handler the first time it waits for a child).
pub fn snapshot_text(env: &mut Env<VS>) -> String {
    use yash_env::system::resource::{GetRlimit as _, Resource};
    use yash_env::system::r#virtual::SIGCHLD;
    use yash_env::system::{GetCwd as _, Umask as _};
    use yash_env::variable::Scope;
    let mut lines: Vec<String> = Vec::new();
    for (name, var) in env.variables.iter(Scope::Global) {
        lines.push(format!(
            "var:{name}={:?}|exp={}|ro={}",
            var.value,
            var.is_exported as u8,
            var.read_only_location.is_some() as u8
        ));
    }
    lines.push(format!("pos={:?}", env.variables.positional_params().values));
    for f in env.functions.iter() {
        lines.push(format!("fn:{}={}|ro={}", f.name, f.body, f.read_only_location.is_some() as u8));
    }
    for a in env.aliases.iter() {
        lines.push(format!("alias:{}={}|g={}", a.0.name, a.0.replacement, a.0.global as u8));
    }
    lines.push(format!("opt={:?}", env.options));
    for (cond, cur, _parent) in env.traps.iter() {
        use yash_env::trap::Action;
        let a = match &cur.action {
            Action::Default => "D".to_string(),
            Action::Ignore => "I".to_string(),
            Action::Command(c) => format!("C:{c}"),
        };
        if let yash_env::trap::Condition::Signal(n) = cond
            && *n == SIGCHLD
        {
            continue;
        }
        // (an entry with the default action is the same as no entry: listing
        // the traps creates such entries)
        if a == "D" {
            continue;
        }
        match cond {
            yash_env::trap::Condition::Signal(n) => lines.push(format!("trap:S{:03}={a}", n.as_raw())),
            other => lines.push(format!("trap:{other:?}={a}")),
        }
    }
    lines.push(format!("arg0={}", env.arg0));
    // (`$$`: the process ID of the shell itself, also inside subshells)
    lines.push(format!("mainpid={}", env.main_pid.0));
    lines.push(format!("ttyfg={:?}", world_state().borrow().foreground.map(|p| p.0)));
    lines.push(format!("status={}", env.exit_status.0));
    lines.push(format!("jobs={}", env.jobs.len()));
    // (jobs the shell still owns, i.e. may wait for: none in a subshell)
    lines.push(format!("ownedjobs={}", env.jobs.iter().filter(|(_, j)| j.is_owned).count()));
    lines.push(format!("lastasync={}", env.jobs.last_async_pid().0));
    {
        use yash_env::stack::Frame;
        let frames: Vec<String> = env
            .stack
            .iter()
            .map(|f| match f {
                Frame::Loop => "Loop".to_string(),
                Frame::Subshell => "Subshell".to_string(),
                Frame::Condition => "Condition".to_string(),
                Frame::Builtin(b) => format!("Builtin({})", b.name.value),
                Frame::DotScript => "DotScript".to_string(),
                Frame::Trap(c) => format!("Trap({c:?})"),
                Frame::InitFile => "InitFile".to_string(),
                #[allow(unreachable_patterns)]
                _ => "Other".to_string(),
            })
            .collect();
        lines.push(format!("stack={}", frames.join(",")));
    }
    lines.push(format!(
        "cwd={}",
        env.system.getcwd().map(|p| p.to_string_lossy().into_owned()).unwrap_or_default()
    ));
    // the environment an external utility would be started with
    {
        let mut e: Vec<String> = env.variables.env_c_strings().iter().map(|c| c.to_string_lossy().replace('\n', "\\n")).collect();
        e.sort();
        lines.push(format!("envp={}", e.join("\u{1}")));
    }
    let old = env.system.umask(yash_env::system::Mode::empty());
    env.system.umask(old);
    lines.push(format!("umask={:o}", old.bits()));
    lines.push(format!(
        "nofile={:?}",
        env.system.getrlimit(Resource::NOFILE).map(|l| l.soft).ok()
    ));
    let pid = env.system.getpid();
    let state = world_state();
    let st = state.borrow();
    if let Some(p) = st.processes.get(&pid) {
        for (fd, body) in p.fds() {
            lines.push(format!(
                "fd:{}={},{}",
                fd.0,
                body.open_file_description.borrow().serial(),
                body.flags.contains(yash_env::system::FdFlag::CloseOnExec) as u8
            ));
            lines.push(format!("fdnb:{}={}", fd.0, body.open_file_description.borrow().is_nonblocking() as u8));
        }
        // (virtual signal numbers go beyond 100; default dispositions are
        // left out, so an absent key means Default)
        for n in 1i32..=160 {
            let sig = yash_env::signal::Number::from_raw_unchecked(std::num::NonZero::new(n).unwrap());
            if sig == SIGCHLD {
                continue;
            }
            let d = p.disposition(sig);
            if d != yash_env::system::Disposition::Default {
                lines.push(format!("disp:{n:03}={d:?}"));
            }
        }
        let mut mask: Vec<i32> = {
            use yash_env::system::Sigset as _;
            p.blocked_signals().iter().map(|s| s.as_raw()).filter(|s| *s != SIGCHLD.as_raw()).collect()
        };
        mask.sort();
        lines.push(format!("mask={mask:?}"));
    }
    lines.sort();
    lines.join("\n")
}

/// `lastenv NAME` - prints `NAME=<value>` (or `NAME unset`) as found in the
/// environment passed to the most recent `execve` of any process of the
/// simulated system (recorded by the virtual kernel), or `no execve`.
fn lastenv_main(env: &mut Env<VS>, args: Vec<Field>) -> BFut<'_> {
    let name = args.first().map(|f| f.value.clone()).unwrap_or_default();
    let text = {
        let state = world_state();
        let st = state.borrow();
        let last = st.processes.iter().rev().find_map(|(_, p)| p.last_exec().clone());
        match last {
            None => "no execve".to_string(),
            Some((_, _, envs)) => {
                let prefix = format!("{name}=");
                match envs.iter().map(|c| c.to_string_lossy().into_owned()).find(|e| e.starts_with(&prefix)) {
                    Some(e) => e,
                    None => format!("{name} unset"),
                }
            }
        }
    };
    Box::pin(async move {
        let s = format!("{text}\n");
        BResult::new(write_out(env, Fd::STDOUT, s.as_bytes()).await)
    })
}

/// `snap LABEL` - records [`snapshot_text`] in the history; `$?` unchanged.
fn snap_main(env: &mut Env<VS>, args: Vec<Field>) -> BFut<'_> {
    let label = strs(&args).join(" ");
    let pid = env.system.getpid().0;
    let text = snapshot_text(env);
    if let Some(ctl) = ctl() {
        ctl.record(pid, "snap", 0, 0, &format!("{label}\n{text}"));
    }
    let st = env.exit_status;
    Box::pin(std::future::ready(BResult::new(st)))
}

/// `jobcheck LABEL` - evaluates the job-table invariants (C12) on the real
/// `Env::jobs` of the caller and records the result; `$?` unchanged.
fn jobcheck_main(env: &mut Env<VS>, args: Vec<Field>) -> BFut<'_> {
    let label = strs(&args).join(" ");
    let pid = env.system.getpid().0;
    let table: Vec<String> = env
        .jobs
        .iter()
        .map(|(i, j)| format!("[{i}]{}:{}", j.pid, crate::sim::state_name(j.state)))
        .collect();
    let summary = format!(
        "{label} jobs={} cur={:?} prev={:?}",
        table.join(","),
        env.jobs.current_job(),
        env.jobs.previous_job()
    );
    if let Some(ctl) = ctl() {
        ctl.record(pid, "jobcheck", 0, 0, &summary);
        if let Err((class, msg)) = crate::c12::check_invariants(&env.jobs) {
            ctl.record(pid, "jobcheck-fail", 0, 0, &format!("{class}: {msg} at {summary}"));
        }
        // `fg:STATUS:N`: `fg %N` has just returned STATUS; if that says the job
        // was killed by a signal, the job has left the table (a foreground job
        // that terminates is removed)
        for a in strs(&args) {
            if let Some(rest) = a.strip_prefix("fg:")
                && let Some((st, n)) = rest.split_once(':')
                && let (Ok(st), Ok(n)) = (st.parse::<u32>(), n.parse::<usize>())
                // (384 + a stop signal means "stopped again": KILL and TERM only)
                && matches!(st, 393 | 399)
                && n >= 1
                && let Some(j) = env.jobs.get(n - 1)
                && !j.state.is_alive()
            {
                ctl.record(
                    pid,
                    "jobcheck-fail",
                    0,
                    0,
                    &format!("fg-left-finished-job: `fg %{n}` returned {st} (killed by a signal) but the job is still in the table at {summary}"),
                );
            }
        }
        // $! designates the most recent asynchronous job if it is still listed
        let last = env.jobs.last_async_pid();
        if last.0 != 0
            && let Some(i) = env.jobs.find_by_pid(last)
            && env.jobs.get(i).map(|j| j.pid) != Some(last)
        {
            ctl.record(pid, "jobcheck-fail", 0, 0, &format!("last-async: $! = {last} resolves to another job at {summary}"));
        }
    }
    let st = env.exit_status;
    Box::pin(std::future::ready(BResult::new(st)))
}

/// `jobsout FILE LABEL` - checks the listing the `jobs` built-in has just
/// written to FILE: job numbers unique; exactly one line marked `+` if there is
/// a line at all, exactly one marked `-` if there are two or more; if a listed
/// job is stopped the `+` one is, and with two or more stopped the `-` one too.
fn jobsout_main(env: &mut Env<VS>, args: Vec<Field>) -> BFut<'_> {
    let a = strs(&args);
    let path = a.first().cloned().unwrap_or_default();
    let label = a.get(1).cloned().unwrap_or_default();
    let pid = env.system.getpid().0;
    let text = {
        let state = world_state();
        let st = state.borrow();
        st.file_system
            .get(path)
            .ok()
            .and_then(|inode| match &inode.borrow().body {
                yash_env::system::r#virtual::FileBody::Regular { content, .. } => Some(String::from_utf8_lossy(content).into_owned()),
                _ => None,
            })
            .unwrap_or_default()
    };
    // `[N] M State...` (M is `+`, `-` or a blank)
    let mut rows: Vec<(u32, char, bool)> = Vec::new();
    for l in text.lines() {
        let Some(rest) = l.strip_prefix('[') else { continue };
        let Some((n, rest)) = rest.split_once("] ") else { continue };
        let Ok(n) = n.parse::<u32>() else { continue };
        let marker = rest.chars().next().unwrap_or(' ');
        let stopped = rest.get(1..).is_some_and(|r| r.trim_start().starts_with("Stopped"));
        rows.push((n, marker, stopped));
    }
    // (with job ID operands only the named jobs are listed, possibly more than
    // once: the rules below are about a listing of all jobs)
    if label.starts_with("ops:") {
        rows.clear();
    }
    let mut problem: Option<String> = None;
    let mut nums: Vec<u32> = rows.iter().map(|r| r.0).collect();
    nums.sort();
    nums.dedup();
    let plus: Vec<&(u32, char, bool)> = rows.iter().filter(|r| r.1 == '+').collect();
    let minus: Vec<&(u32, char, bool)> = rows.iter().filter(|r| r.1 == '-').collect();
    let stopped = rows.iter().filter(|r| r.2).count();
    if nums.len() != rows.len() {
        problem = Some("a job number is listed twice".into());
    } else if !rows.is_empty() && plus.len() != 1 {
        problem = Some(format!("{} lines are marked `+` (current job), expected exactly one", plus.len()));
    } else if rows.len() >= 2 && minus.len() != 1 {
        problem = Some(format!("{} lines are marked `-` (previous job), expected exactly one for {} jobs", minus.len(), rows.len()));
    } else if rows.len() == 1 && !minus.is_empty() {
        problem = Some("the only job is marked `-`".into());
    } else if stopped >= 1 && !plus[0].2 {
        problem = Some("a stopped job is listed but the job marked `+` is not stopped".into());
    } else if stopped >= 2 && !minus[0].2 {
        problem = Some("two or more stopped jobs are listed but the job marked `-` is not stopped".into());
    }
    if let Some(ctl) = ctl() {
        ctl.count("jobs_listings_checked");
        // (third operand: file with what the built-in wrote to stderr; an error
        // - a job ID that designates nothing - makes the listing incomparable)
        let failed = a.get(2).is_some_and(|p| {
            let state = world_state();
            let st = state.borrow();
            st.file_system.get(*p).ok().is_some_and(|inode| match &inode.borrow().body {
                yash_env::system::r#virtual::FileBody::Regular { content, .. } => !content.is_empty(),
                _ => false,
            })
        });
        ctl.record(pid, "jobsout", failed as i64, 0, &label);
        if let Some(p) = problem {
            ctl.record(pid, "jobcheck-fail", 0, 0, &format!("jobs-listing: {p} at {label}; listing: {:?}", text));
        }
    }
    let st = env.exit_status;
    Box::pin(std::future::ready(BResult::new(st)))
}

/// `pgcheck` - first command of an asynchronous job of a job-control shell:
/// the job is a process group of its own from the start, whichever of parent
/// and child ran first after the fork (both call setpgid).
fn pgcheck_main(env: &mut Env<VS>, _args: Vec<Field>) -> BFut<'_> {
    use yash_env::system::GetPid as _;
    let pid = env.system.getpid();
    let pgid = env.system.getpgrp();
    // (only a job of a shell that controls jobs: the option is on and this
    // process is the first subshell level)
    let monitor = env.options.get(yash_env::option::Option::Monitor) == yash_env::option::State::On;
    let levels = env.stack.iter().filter(|f| matches!(f, yash_env::stack::Frame::Subshell)).count();
    if !monitor || levels != 1 {
        let st = env.exit_status;
        return Box::pin(std::future::ready(BResult::new(st)));
    }
    if let Some(ctl) = ctl() {
        ctl.count("job_process_groups_checked");
        if pgid != pid {
            ctl.record(
                pid.0,
                "jobcheck-fail",
                0,
                0,
                &format!("job-pgid: the asynchronous job running as process {pid} is in process group {pgid}, not in one of its own"),
            );
        }
    }
    let st = env.exit_status;
    Box::pin(std::future::ready(BResult::new(st)))
}

/// `selfstop` - the calling process stops itself (SIGSTOP); returns when it
/// is continued.
fn selfstop_main(env: &mut Env<VS>, _args: Vec<Field>) -> BFut<'_> {
    use yash_env::system::SendSignal as _;
    Box::pin(async move {
        let sig = yash_env::system::r#virtual::SIGSTOP;
        env.system.raise(sig).await.ok();
        BResult::new(ExitStatus::SUCCESS)
    })
}

/// `contall` - sends SIGCONT to every live child of the caller (so that a
/// script can always finish, whatever the simulator stopped).
fn contall_main(env: &mut Env<VS>, _args: Vec<Field>) -> BFut<'_> {
    use yash_env::system::SendSignal as _;
    Box::pin(async move {
        let me = env.system.getpid();
        let children: Vec<yash_env::job::Pid> = {
            let state = world_state();
            let st = state.borrow();
            st.processes
                .iter()
                .filter(|(_, p)| p.ppid() == me && p.state().is_alive())
                .map(|(pid, _)| *pid)
                .collect()
        };
        for c in children {
            env.system.kill(c, Some(yash_env::system::r#virtual::SIGCONT)).await.ok();
        }
        BResult::new(ExitStatus::SUCCESS)
    })
}

pub fn virtual_probes() -> Vec<(&'static str, Builtin<VS>)> {
    let mut v = generic_probes::<VS>();
    v.push(("mark", Builtin::new(Type::Mandatory, mark_main)));
    v.push(("fds", Builtin::new(Type::Mandatory, fds_main)));
    v.push(("tell", Builtin::new(Type::Mandatory, tell_main)));
    v.push(("io", Builtin::new(Type::Mandatory, io_main)));
    v.push(("snap", Builtin::new(Type::Mandatory, snap_main)));
    v.push(("lastenv", Builtin::new(Type::Mandatory, lastenv_main)));
    v.push(("jobcheck", Builtin::new(Type::Mandatory, jobcheck_main)));
    v.push(("pgcheck", Builtin::new(Type::Mandatory, pgcheck_main)));
    v.push(("jobsout", Builtin::new(Type::Mandatory, jobsout_main)));
    v.push(("selfstop", Builtin::new(Type::Mandatory, selfstop_main)));
    v.push(("contall", Builtin::new(Type::Mandatory, contall_main)));
    v
}
