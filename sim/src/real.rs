//! The real side of C19: the same shell glue and generic probes on
//! `RealSystem`, in this process (invoked as `yash-sim real-shell ...`).

use crate::probes;
use crate::world::{ShellSpec, run_as_shell_process};
use std::rc::Rc;
use yash_env::Env;
use yash_env::RealSystem;
use yash_env::semantics::exit_or_raise;
use yash_env::system::{Concurrent, Disposition, Sigaction as _, Signals as _};

pub fn real_shell_main(args: Vec<String>) -> ! {
    // SAFETY: the only RealSystem instance in this (single-threaded) process.
    let system = unsafe { RealSystem::new() };
    system.sigaction(RealSystem::SIGPIPE, Disposition::Default).ok();
    let system = Rc::new(Concurrent::new(system));
    let runner = Rc::clone(&system);
    let mut argv = vec!["sh".to_string()];
    argv.extend(args);
    let task = async {
        let mut env = Env::with_system(system);
        let spec = ShellSpec {
            args: argv,
            vars: vec![("PATH".into(), "/bin".into())],
        };
        run_as_shell_process(&mut env, spec, probes::generic_probes()).await;
        exit_or_raise(&env.system, env.exit_status).await
    };
    runner.run_real(task)
}
