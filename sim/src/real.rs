//! The real side of C19: the same shell glue and generic probes on
//! `RealSystem`, in this process (invoked as `yash-sim real-shell ...`).

use crate::probes;
use crate::world::{ShellSpec, run_as_shell_process};
use std::rc::Rc;
use yash_env::Env;
use yash_env::RealSystem;
use yash_env::semantics::exit_or_raise;
use yash_env::system::{Concurrent, Disposition, Sigaction as _, Signals as _};

pub fn real_shell_main(args: Vec<String>) -> ! {
    // The real shell starts from the state the simulated one starts from: every
    // signal with its default action and unblocked - however the check itself
    // was started (a background job of a non-interactive shell, `nohup` and
    // some service managers hand down ignored SIGINT / SIGQUIT / SIGHUP / SIGPIPE,
    // which a shell can then neither trap nor be killed by).
    // SAFETY: plain libc calls before anything else runs in this process
    unsafe {
        for sig in 1..32 {
            if sig != libc::SIGKILL && sig != libc::SIGSTOP {
                libc::signal(sig, libc::SIG_DFL);
            }
        }
        let mut all: libc::sigset_t = std::mem::zeroed();
        libc::sigfillset(&mut all);
        libc::sigprocmask(libc::SIG_UNBLOCK, &all, std::ptr::null_mut());
    }
    // SAFETY: the only RealSystem instance in this (single-threaded) process.
    let system = unsafe { RealSystem::new() };
    system.sigaction(RealSystem::SIGPIPE, Disposition::Default).ok();
    let system = Rc::new(Concurrent::new(system));
    let runner = Rc::clone(&system);
    let mut argv = vec!["sh".to_string()];
    argv.extend(args);
    let task = async {
        let mut env = Env::with_system(system);
        let spec = ShellSpec {
            args: argv,
            vars: vec![("PATH".into(), "/bin".into())],
        };
        run_as_shell_process(&mut env, spec, probes::generic_probes()).await;
        exit_or_raise(&env.system, env.exit_status).await
    };
    runner.run_real(task)
}
