#![allow(dead_code, unused_imports)]
mod c08;
mod c09;
mod c11;
mod c12;
mod c13;
mod c14;
mod c15;
mod c18;
mod c19;
mod real;
mod harness;
mod pipes;
mod probes;
mod procs;
mod rng;
mod shellrun;
mod sim;
mod syscalls;
mod wakers;
mod world;

use harness::{CheckOptions, Prop, ReplayFile, Tier};
use rng::{Decider, Rng};
use sim::{SimConfig, Strategy};
use world::{ShellSpec, World};

fn props() -> Vec<Box<dyn Prop>> {
    vec![Box::new(c08::C08), Box::new(c09::C09), Box::new(c11::C11), Box::new(c12::C12), Box::new(c13::C13), Box::new(c14::C14), Box::new(c15::C15), Box::new(c18::C18), Box::new(c19::C19)]
}

fn find_prop(id: &str) -> Option<Box<dyn Prop>> {
    props().into_iter().find(|p| p.id() == id)
}

fn demo(script: &str, seeds: u64, preempt: u32) {
    let mut outcomes: std::collections::BTreeMap<String, u64> = Default::default();
    for seed in 0..seeds {
        let cfg = SimConfig {
            strategy: if seed == 0 { Strategy::Fifo } else { Strategy::Random },
            preempt_permille: if seed == 0 { 0 } else { preempt },
            ..Default::default()
        };
        let spec = shellrun::ScriptSpec {
            script: script.to_string(),
            dash_c: true,
            options: std::env::var("DEMO_OPTS").map(|s| s.split_whitespace().map(String::from).collect()).unwrap_or_default(),
            ..Default::default()
        };
        let o = shellrun::run_script_with(&spec, &cfg, Decider::record(Rng::stream(1, 0, seed)), |w| {
            if let Ok(f) = std::env::var("DEMO_FEED") {
                shellrun::plumb_slow_stdin(
                    w,
                    f.split_whitespace().enumerate().map(|(j, n)| (n.parse().unwrap_or(1), format!("d{j} x\n").into_bytes())).collect(),
                );
            }
            if std::env::var("DEMO_IGNORE_USR2").is_ok() {
                use yash_env::system::Sigaction as _;
                w.system.sigaction(yash_env::system::r#virtual::SIGUSR2, yash_env::system::Disposition::Ignore).ok();
            }
        }, |_, _| true);
        let key = match &o.panic {
            None => format!(
                "main_done={} stalled={} status={}\nstdout={:?}\nstderr={:?}\nprocs={:?}",
                o.outcome.main_done,
                o.outcome.stalled,
                o.status,
                o.stdout,
                o.stderr,
                o.outcome
                    .procs
                    .iter()
                    .map(|p| format!("{}:{}{}", p.pid, p.state, if p.unreaped { "!" } else { "" }))
                    .collect::<Vec<_>>()
            ),
            Some(e) => format!("PANIC {e}"),
        };
        if std::env::var("DEMO_TRACE").is_ok() && o.outcome.stalled && !outcomes.contains_key(&key) {
            println!("=== trace of seed {seed} (stalled)");
            for l in shellrun::history_tail(&o.history, 200) {
                println!("#{} pid={} {} a={} b={} {}", l.seq, l.pid, l.kind, l.a, l.b, l.text);
            }
            for d in &o.decisions {
                print!("{}:{}/{} ", d.tag, d.v, d.n);
            }
            println!();
        }
        *outcomes.entry(key).or_insert(0) += 1;
    }
    for (k, v) in outcomes {
        println!("--- {v} runs:\n{k}");
    }
}

/// Runs the check in a child process. If the child dies abnormally (signal,
/// abort), the crashing case is located by bisection over the case index and
/// reported as a violation with a replay file naming (seed, index).
fn run_isolated(prop: &dyn Prop, args: &[String], opt: &CheckOptions) -> i32 {
    let exe = std::env::current_exe().unwrap();
    let run = |extra: &[String], quiet: bool| -> Option<i32> {
        let mut cmd = std::process::Command::new(&exe);
        cmd.args(&args[1..]).arg("--inner").args(extra);
        if quiet {
            cmd.stdout(std::process::Stdio::null()).stderr(std::process::Stdio::null());
        }
        cmd.status().ok().and_then(|s| s.code())
    };
    match run(&[], false) {
        Some(c @ (0 | 1 | 2)) => c,
        other => {
            eprintln!("check process ended abnormally ({other:?}); locating the crashing case");
            let total = opt.cases.unwrap_or_else(|| prop.cases(opt.tier));
            // find the smallest n such that cases [0, n) crash, single worker
            let crashes = |from: u64, to: u64| -> bool {
                let extra: Vec<String> = vec![
                    "--from".into(), from.to_string(), "--cases".into(), to.to_string(),
                    "--workers".into(), "1".into(), "--no-evidence".into(),
                ];
                !matches!(run(&extra, true), Some(0 | 1 | 2))
            };
            let (mut lo, mut hi) = (0u64, total);
            if !crashes(0, total) {
                eprintln!("HARNESS ERROR: the crash does not reproduce with one worker");
                return 2;
            }
            while hi - lo > 1 {
                let mid = lo + (hi - lo) / 2;
                if crashes(lo, mid) {
                    hi = mid;
                } else {
                    lo = mid;
                }
            }
            let index = lo;
            let path = format!("{}/{}-{}-{}-crash.json", opt.replay_dir, prop.id(), opt.seed, index);
            std::fs::create_dir_all(&opt.replay_dir).ok();
            let rf = serde_json::json!({"property": prop.id(), "seed": opt.seed, "index": index,
                "tier": opt.tier.name(), "crash": true,
                "note": "the process running this case died abnormally (memory unsafety in the system under test); replay re-runs case <index> of seed <seed> in a child process"});
            std::fs::write(&path, serde_json::to_string_pretty(&rf).unwrap()).ok();
            println!("violation class=crash key=crash detail=the process running case {index} died abnormally");
            println!("VIOLATION property={} replay={}", prop.id(), path);
            1
        }
    }
}

fn arg_value(args: &[String], name: &str) -> Option<String> {
    args.iter()
        .position(|a| a == name)
        .and_then(|i| args.get(i + 1).cloned())
}

fn verif_dir() -> String {
    std::env::var("VERIF_DIR").unwrap_or_else(|_| "/verif".to_string())
}

fn main() {
    let args: Vec<String> = std::env::args().collect();
    match args.get(1).map(String::as_str) {
        Some("real-sys") => {
            syscalls::real_sys_main();
        }
        Some("real-shell") => {
            real::real_shell_main(args[2..].to_vec());
        }
        Some("demo") => {
            let script = args.get(2).expect("script");
            let seeds = args.get(3).and_then(|s| s.parse().ok()).unwrap_or(100);
            let preempt = args.get(4).and_then(|s| s.parse().ok()).unwrap_or(0);
            demo(script, seeds, preempt);
        }
        Some("check") => {
            let id = args.get(2).expect("property id");
            let tier = match args.get(3).map(String::as_str) {
                Some("thorough") => Tier::Thorough,
                _ => Tier::Quick,
            };
            let Some(prop) = find_prop(id) else {
                eprintln!("unknown property {id}");
                std::process::exit(2);
            };
            let seed = arg_value(&args, "--seed")
                .or_else(|| std::env::var("VERIF_SEED").ok())
                .and_then(|s| s.parse().ok())
                .unwrap_or(1);
            let workers = arg_value(&args, "--workers")
                .and_then(|s| s.parse().ok())
                .unwrap_or_else(|| {
                    std::thread::available_parallelism().map(|n| n.get()).unwrap_or(4)
                });
            println!("VERIF_SEED={seed} property={id} tier={} workers={workers}", tier.name());
            let dir = verif_dir();
            let opt = CheckOptions {
                tier,
                seed,
                workers,
                cases: arg_value(&args, "--cases").and_then(|s| s.parse().ok()),
                evidence_dir: format!("{dir}/evidence"),
                replay_dir: format!("{dir}/replays"),
                known_findings: format!("{dir}/known_findings.txt"),
                write_evidence: !args.iter().any(|a| a == "--no-evidence"),
                max_seconds: arg_value(&args, "--max-seconds").and_then(|s| s.parse().ok()),
                from: arg_value(&args, "--from").and_then(|s| s.parse().ok()).unwrap_or(0),
            };
            if prop.isolate() && !args.iter().any(|a| a == "--inner") {
                std::process::exit(run_isolated(prop.as_ref(), &args, &opt));
            }
            let r = harness::run_check(prop.as_ref(), &opt);
            std::process::exit(r.exit_code);
        }
        Some("selftest") => {
            // Determinism: every property, same seeds, fresh processes, 1 and
            // 16 workers; the digests of everything observed must agree.
            let n = match args.get(2).map(String::as_str) {
                Some("full") => 1500,
                _ => 200,
            };
            let exe = std::env::current_exe().unwrap();
            let mut bad = false;
            for p in props() {
                let mut digests = Vec::new();
                for (workers, seed) in [(1, 1), (16, 1), (5, 1), (1, 7), (16, 7)] {
                    let out = std::process::Command::new(&exe)
                        .args([
                            "check",
                            p.id(),
                            "quick",
                            "--cases",
                            &n.to_string(),
                            "--workers",
                            &workers.to_string(),
                            "--seed",
                            &seed.to_string(),
                            "--no-evidence",
                        ])
                        .output()
                        .expect("cannot run self");
                    let text = String::from_utf8_lossy(&out.stdout).into_owned();
                    let digest = text
                        .split_whitespace()
                        .find_map(|w| w.strip_prefix("digest="))
                        .unwrap_or("?")
                        .to_string();
                    digests.push((seed, workers, digest, out.status.code()));
                }
                for seed in [1, 7] {
                    let ds: Vec<_> = digests.iter().filter(|d| d.0 == seed).collect();
                    let same = ds.iter().all(|d| d.2 == ds[0].2 && d.2 != "?");
                    println!(
                        "selftest {} seed={} cases={} digests={:?} {}",
                        p.id(),
                        seed,
                        n,
                        ds.iter().map(|d| format!("w{}:{}", d.1, d.2)).collect::<Vec<_>>(),
                        if same { "deterministic" } else { "DIVERGED" }
                    );
                    if !same {
                        bad = true;
                    }
                }
            }
            if bad {
                eprintln!("HARNESS ERROR: determinism self-test failed");
                std::process::exit(2);
            }
        }
        Some("replay") => {
            let path = args.get(2).expect("replay file");
            let quiet = args.iter().any(|a| a == "--quiet");
            let text = std::fs::read_to_string(path).expect("cannot read replay file");
            let raw: serde_json::Value = serde_json::from_str(&text).expect("bad replay file");
            if raw.get("crash").and_then(|h| h.as_bool()) == Some(true) {
                let id = raw["property"].as_str().unwrap_or("").to_string();
                let seed = raw["seed"].as_u64().unwrap_or(1);
                let index = raw["index"].as_u64().unwrap_or(0);
                let tier = raw["tier"].as_str().unwrap_or("quick").to_string();
                let exe = std::env::current_exe().unwrap();
                let code = std::process::Command::new(exe)
                    .args(["check", &id, &tier, "--seed", &seed.to_string(), "--from", &index.to_string(),
                        "--cases", &(index + 1).to_string(), "--workers", "1", "--no-evidence", "--inner"])
                    .stdout(std::process::Stdio::null())
                    .stderr(std::process::Stdio::null())
                    .status()
                    .ok()
                    .and_then(|s| s.code());
                match code {
                    Some(0) => {
                        if !quiet {
                            println!("not reproduced: the case runs to completion and satisfies the property");
                        }
                        std::process::exit(0);
                    }
                    Some(1) => {
                        if !quiet {
                            println!("the case no longer crashes but violates the property");
                        }
                        std::process::exit(3);
                    }
                    other => {
                        if !quiet {
                            println!("reproduced: the process running case {index} of seed {seed} died abnormally ({other:?})\nVIOLATION property={id} replay=<this file>");
                        }
                        std::process::exit(1);
                    }
                }
            }
            if raw.get("hang").and_then(|h| h.as_bool()) == Some(true) {
                // A recorded hang: re-run the case by (seed, index) under a watchdog.
                let id = raw["property"].as_str().unwrap_or("").to_string();
                let seed = raw["seed"].as_u64().unwrap_or(1);
                let index = raw["index"].as_u64().unwrap_or(0);
                let tier = if raw["tier"].as_str() == Some("thorough") { Tier::Thorough } else { Tier::Quick };
                let Some(prop) = find_prop(&id) else {
                    eprintln!("unknown property {id}");
                    std::process::exit(2);
                };
                let limit: u64 = std::env::var("VERIF_CASE_TIMEOUT").ok().and_then(|s| s.parse().ok()).unwrap_or(120);
                let (tx, rx) = std::sync::mpsc::channel();
                std::thread::spawn(move || {
                    let mut stats = harness::Stats::default();
                    let r = prop.run_case(seed, index, tier, &mut stats);
                    tx.send(r.map(|f| f.class)).ok();
                });
                match rx.recv_timeout(std::time::Duration::from_secs(limit)) {
                    Err(_) => {
                        if !quiet {
                            println!("reproduced: case {index} of seed {seed} still does not finish within {limit}s\nVIOLATION property={id} replay=<this file>");
                        }
                        std::process::exit(1);
                    }
                    Ok(Some(class)) => {
                        if !quiet {
                            println!("case finishes now, with violation class={class}");
                        }
                        std::process::exit(3);
                    }
                    Ok(None) => {
                        if !quiet {
                            println!("not reproduced: the case finishes and satisfies the property");
                        }
                        std::process::exit(0);
                    }
                }
            }
            let rf: ReplayFile = serde_json::from_value(raw).expect("bad replay file");
            let Some(prop) = find_prop(&rf.property) else {
                eprintln!("unknown property {}", rf.property);
                std::process::exit(2);
            };
            std::process::exit(harness::replay_file(prop.as_ref(), &rf, quiet));
        }
        _ => {
            eprintln!("usage: yash-sim check <ID> <quick|thorough> [--seed N] [--workers N] [--cases N]\n       yash-sim replay <file>\n       yash-sim demo <script> [seeds] [preempt_permille]");
            std::process::exit(2);
        }
    }
}
