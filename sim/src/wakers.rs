//! Engine (w) of C14: the wake-up bookkeeping under the pipes and timers
//! (`yash_env::waker::{WakerSet, ScheduledWakerQueue}`) against a reference
//! model, over seeded operation histories in which waiting tasks disappear
//! (their cell is dropped), are served by another event (their cell is
//! emptied) or wait again with the same cell (re-filled) at arbitrary points -
//! what a killed process, an interrupted `select`, a task waiting for several
//! events and a retried blocking call do to these structures.
//!
//! No wake-up may be lost (every live waker whose registration is certainly
//! still there is woken by the event) and none invented (a waker is never
//! woken without a registration, nor twice for one filling of its cell).
//! Registrations of cells that were dead for a while may have been cleaned up
//! as a documented side effect: for those both outcomes are accepted.

use crate::rng::Rng;
use serde::{Deserialize, Serialize};
use std::cell::Cell;
use std::collections::BTreeMap;
use std::rc::Rc;
use std::sync::Arc;
use std::sync::atomic::{AtomicU32, Ordering};
use std::task::{Wake, Waker};
use std::time::{Duration, Instant};
use yash_env::waker::{ScheduledWakerQueue, WakerSet};

#[derive(Clone, Debug, Serialize, Deserialize, PartialEq)]
pub enum WOp {
    /// create a new cell for slot i with a fresh waker (the old cell is dropped)
    Arm(u8),
    /// put a fresh waker into the existing cell of slot i
    Refill(u8),
    /// drop the cell of slot i (the waiting task is gone)
    Drop(u8),
    /// empty the cell of slot i (another event has served the task)
    Consume(u8),
    /// register the cell of slot i in the set
    SetInsert(u8),
    SetWakeAll,
    SetClear,
    /// register the cell of slot i in the queue at time t
    QPush(u8, u8),
    /// wake everything due at time t
    QWake(u8),
    QNext,
    QTrim,
    QClear,
}

#[derive(Clone, Debug, Serialize, Deserialize, PartialEq)]
pub struct WHist {
    pub ops: Vec<WOp>,
}

struct Flag(AtomicU32);
impl Wake for Flag {
    fn wake(self: Arc<Self>) {
        self.0.fetch_add(1, Ordering::SeqCst);
    }
}

pub fn generate(rng: &mut Rng, long: bool) -> WHist {
    let n = rng.range(3, if long { 80 } else { 30 });
    let slots = rng.range(2, 14) as u8;
    let mut ops = Vec::new();
    // swarm: vary the mix
    let w_die = rng.range(0, 5);
    let w_queue = rng.range(0, 6);
    for _ in 0..n {
        let c = rng.below(slots as u32) as u8;
        let x = rng.below(21 + w_die + w_queue);
        ops.push(match x {
            0..=3 => WOp::Arm(c),
            4 => WOp::Refill(c),
            5..=9 => WOp::SetInsert(c),
            10..=11 => WOp::SetWakeAll,
            12 => WOp::SetClear,
            13..=15 => WOp::QPush(c, rng.below(8) as u8),
            16..=17 => WOp::QWake(rng.below(9) as u8),
            18 => WOp::QNext,
            19 => WOp::QTrim,
            20 => WOp::QClear,
            k if k < 21 + w_die => match rng.below(3) {
                0 => WOp::Drop(c),
                1 => WOp::Consume(c),
                _ => WOp::Refill(c),
            },
            _ => {
                if rng.bool() {
                    WOp::QPush(c, rng.below(8) as u8)
                } else {
                    WOp::QWake(rng.below(9) as u8)
                }
            }
        });
    }
    WHist { ops }
}

/// How sure the model is that a registration is still physically there.
#[derive(Clone, Copy, PartialEq, Debug)]
enum Reg {
    Sure,
    /// the cell was dead for a while: the entry may have been cleaned up
    Maybe,
}

struct Inst {
    cell: Option<Rc<Cell<Option<Waker>>>>,
    /// the filling currently in the cell
    filling: Option<u32>,
}

fn holds_waker(inst: &Inst) -> bool {
    match &inst.cell {
        Some(cell) => {
            let w = cell.take();
            let holds = w.is_some();
            cell.set(w);
            holds
        }
        None => false,
    }
}

/// The event a registration waited for has happened (after the real call).
/// A registration that was certainly there must have woken a live waker; one
/// that may have been cleaned up either woke it or left it in its cell.
fn served(inst: &mut Inst, reg: Reg, flags: &mut [(Arc<Flag>, u32, u32)]) {
    let Some(f) = inst.filling else { return };
    if reg == Reg::Sure || !holds_waker(inst) {
        flags[f as usize].1 += 1;
        flags[f as usize].2 += 1;
        inst.filling = None;
    }
}

/// Runs one history; returns (violation class, detail) or None.
pub fn run(h: &WHist, reach: &mut BTreeMap<&'static str, u64>) -> Option<(String, String)> {
    let base = Instant::now();
    let at = |t: u8| base + Duration::from_secs(t as u64);
    let mut set = WakerSet::new();
    let mut queue = ScheduledWakerQueue::new();

    let mut insts: Vec<Inst> = Vec::new();
    let mut slot: BTreeMap<u8, usize> = BTreeMap::new();
    // fillings: flag, allowed wake count range so far
    let mut flags: Vec<(Arc<Flag>, u32, u32)> = Vec::new();
    let mut m_set: BTreeMap<usize, Reg> = BTreeMap::new();
    let mut m_queue: BTreeMap<usize, (u8, Reg)> = BTreeMap::new();

    fn new_filling(flags: &mut Vec<(Arc<Flag>, u32, u32)>) -> (u32, Waker) {
        let flag = Arc::new(Flag(AtomicU32::new(0)));
        flags.push((flag.clone(), 0, 0));
        ((flags.len() - 1) as u32, Waker::from(flag))
    }

    for (step, op) in h.ops.iter().enumerate() {
        // the inst whose cell dies in this step (its registrations become Maybe)
        let mut died: Option<usize> = None;
        match op {
            WOp::Arm(i) => {
                if let Some(old) = slot.get(i).copied() {
                    insts[old].cell = None;
                    insts[old].filling = None;
                    died = Some(old);
                }
                let (f, w) = new_filling(&mut flags);
                insts.push(Inst {
                    cell: Some(Rc::new(Cell::new(Some(w)))),
                    filling: Some(f),
                });
                slot.insert(*i, insts.len() - 1);
            }
            WOp::Refill(i) => {
                let Some(k) = slot.get(i).copied() else { continue };
                let Some(cell) = &insts[k].cell else { continue };
                let (f, w) = new_filling(&mut flags);
                cell.set(Some(w));
                if insts[k].filling.is_none() {
                    *reach.entry("dead cell filled again").or_insert(0) += 1;
                }
                insts[k].filling = Some(f);
            }
            WOp::Drop(i) => {
                if let Some(k) = slot.remove(i) {
                    insts[k].cell = None;
                    insts[k].filling = None;
                    died = Some(k);
                }
            }
            WOp::Consume(i) => {
                let Some(k) = slot.get(i).copied() else { continue };
                if let Some(cell) = &insts[k].cell {
                    cell.take();
                }
                insts[k].filling = None;
                died = Some(k);
            }
            WOp::SetInsert(i) => {
                let Some(k) = slot.get(i).copied() else { continue };
                let cell = insts[k].cell.as_ref().unwrap();
                let got = set.insert(Rc::downgrade(cell));
                let live = insts[k].filling.is_some();
                let present = m_set.get(&k).copied();
                if !live && got {
                    return Some(("insert".into(), format!("op #{step} {op:?}: WakerSet::insert accepted a dead waker")));
                }
                if live && present.is_none() && !got {
                    return Some((
                        "insert".into(),
                        format!("op #{step} {op:?}: WakerSet::insert refused a live waker that was not registered"),
                    ));
                }
                if live && present == Some(Reg::Sure) && got {
                    return Some((
                        "insert".into(),
                        format!("op #{step} {op:?}: WakerSet::insert reported a new entry for a waker that was registered and alive all the time"),
                    ));
                }
                if live {
                    m_set.insert(k, Reg::Sure);
                }
            }
            WOp::SetWakeAll => {
                let regs = std::mem::take(&mut m_set);
                set.wake_all();
                for (k, reg) in regs {
                    served(&mut insts[k], reg, &mut flags);
                }
                if !set.is_empty() {
                    return Some(("set-state".into(), format!("op #{step}: the set is not empty after wake_all")));
                }
            }
            WOp::SetClear => {
                m_set.clear();
                set.clear();
            }
            WOp::QPush(i, t) => {
                let Some(k) = slot.get(i).copied() else { continue };
                let cell = insts[k].cell.as_ref().unwrap();
                let got = queue.push(at(*t), Rc::downgrade(cell));
                let live = insts[k].filling.is_some();
                if !live {
                    if got {
                        return Some(("push".into(), format!("op #{step} {op:?}: ScheduledWakerQueue::push accepted a dead waker")));
                    }
                    continue;
                }
                match m_queue.get(&k).copied() {
                    None => {
                        if !got {
                            return Some(("push".into(), format!("op #{step} {op:?}: push refused a live waker that was not queued")));
                        }
                        m_queue.insert(k, (*t, Reg::Sure));
                    }
                    Some((t0, Reg::Sure)) => {
                        let want = t0 > *t;
                        if got != want {
                            return Some((
                                "push".into(),
                                format!("op #{step} {op:?}: push returned {got} for a waker queued at {t0} s, the model says {want}"),
                            ));
                        }
                        if want {
                            m_queue.insert(k, (*t, Reg::Sure));
                        }
                    }
                    Some((t0, Reg::Maybe)) => {
                        // the stale entry may or may not still be there
                        if got {
                            m_queue.insert(k, (*t, Reg::Sure));
                        } else if t0 <= *t {
                            m_queue.insert(k, (t0, Reg::Sure));
                        } else {
                            return Some((
                                "push".into(),
                                format!("op #{step} {op:?}: push refused an earlier time ({t} s) than the stale entry's ({t0} s)"),
                            ));
                        }
                    }
                }
            }
            WOp::QWake(t) => {
                let due: Vec<usize> = m_queue.iter().filter(|(_, (t0, _))| t0 <= t).map(|(k, _)| *k).collect();
                queue.wake(at(*t));
                for k in due {
                    let (_, reg) = m_queue.remove(&k).unwrap();
                    served(&mut insts[k], reg, &mut flags);
                }
            }
            WOp::QNext | WOp::QTrim => {
                let got = if matches!(op, WOp::QNext) {
                    queue.next_wake_time()
                } else {
                    queue.trim_to_next_wake_time()
                };
                let live = |k: &usize| insts[*k].filling.is_some();
                let sure = m_queue.iter().filter(|(k, (_, r))| live(k) && *r == Reg::Sure).map(|(_, (t, _))| *t).min();
                let any = m_queue.iter().filter(|(k, _)| live(k)).map(|(_, (t, _))| *t).min();
                // any subset of the stale registrations may still be there: the
                // answer is the earliest certain entry, or a stale live one
                // that is not later
                let ok = got == sure.map(at)
                    || m_queue
                        .iter()
                        .filter(|(k, (_, r))| live(k) && *r == Reg::Maybe)
                        .any(|(_, (t, _))| got == Some(at(*t)) && sure.is_none_or(|s| *t <= s));
                if !ok {
                    return Some((
                        "next-wake-time".into(),
                        format!(
                            "op #{step} {op:?}: next wake time is {:?} s, the earliest live entry of the model is at {sure:?} s (counting stale registrations: {any:?} s)",
                            got.map(|g| g.duration_since(base).as_secs())
                        ),
                    ));
                }
            }
            WOp::QClear => {
                m_queue.clear();
                queue.clear();
            }
        }
        let _ = died;
        // registrations of cells that are dead now may be cleaned up any time
        for (k, r) in m_set.iter_mut() {
            if *r == Reg::Sure && insts[*k].filling.is_none() {
                *r = Reg::Maybe;
                *reach.entry("waiting cell died while registered").or_insert(0) += 1;
            }
        }
        for (k, (_, r)) in m_queue.iter_mut() {
            if *r == Reg::Sure && insts[*k].filling.is_none() {
                *r = Reg::Maybe;
                *reach.entry("sleeping cell died while queued").or_insert(0) += 1;
            }
        }
        // wake counts; then synchronise the model with what was observed
        for (n, (flag, min, max)) in flags.iter_mut().enumerate() {
            let got = flag.0.load(Ordering::SeqCst);
            if got < *min || got > *max {
                let class = if got < *min { "lost-wakeup" } else { "spurious-wakeup" };
                return Some((
                    class.into(),
                    format!("after op #{step} {op:?}: waker #{n} was woken {got} times, the model allows {min}..={max}"),
                ));
            }
            *min = got;
            *max = got;
        }
    }
    None
}

/// Smaller histories for the minimiser.
pub fn shrink(h: &WHist) -> Vec<WHist> {
    let mut out = Vec::new();
    for i in 0..h.ops.len() {
        let mut ops = h.ops.clone();
        ops.remove(i);
        out.push(WHist { ops });
    }
    out
}
