//! C11 - signal dispositions always match the traps; a caught signal runs its
//! trap once, at the next command boundary, with `$?` preserved.
//!
//! Engine (a): seeded operation histories on the real `TrapSet` against the
//! real `Rc<Concurrent<VirtualSystem>>` (disposition + mask maintenance in the
//! loop), compared after every operation with a reference written from the
//! documentation. Engine (b): whole-shell scripts with traps; the simulator
//! sends signals at seeded scheduler steps (between any two kernel calls with
//! preemption); trap-run history vs. pending-flag model, non-interference of
//! stdout and `$?`.

use crate::harness::{Failure, Prop, Stats, Tier, hash_str};
use crate::rng::{Decider, Decision, Rng, fnv1a, fnv_combine, tag};
use crate::shellrun::{Observed, ScriptSpec, Viol, check_liveness, history_tail, obs_digest, run_script_with};
use crate::sim::{Sim, SimConfig, Strategy};
use futures_util::FutureExt as _;
use serde::{Deserialize, Serialize};
use serde_json::{Value, json};
use std::collections::BTreeMap;
use std::rc::Rc;
use yash_env::job::{Pid, ProcessState};
use yash_env::signal::Number;
use yash_env::source::Location;
use yash_env::system::r#virtual::{
    SIGCHLD, SIGINT, SIGKILL, SIGQUIT, SIGSTOP, SIGTERM, SIGTSTP, SIGTTIN, SIGUSR1, SIGUSR2, VirtualSystem,
};
use yash_env::system::{Concurrent, Disposition, SendSignal as _, Sigaction as _, Sigset as _};
use yash_env::trap::{Action, Condition, SetActionError, TrapSet};

// =====================================================================
// Engine (a): disposition state machine
// =====================================================================

const SIGS: [(&str, Number); 9] = [
    ("USR1", SIGUSR1),
    ("CHLD", SIGCHLD),
    ("INT", SIGINT),
    ("TERM", SIGTERM),
    ("QUIT", SIGQUIT),
    ("TSTP", SIGTSTP),
    ("TTIN", SIGTTIN),
    ("KILL", SIGKILL),
    ("STOP", SIGSTOP),
];

#[derive(Clone, Debug, Serialize, Deserialize, PartialEq)]
pub enum Op {
    /// action: 0 default, 1 ignore, 2 command
    SetAction { sig: u8, action: u8, over: bool },
    SetExit { action: u8 },
    EnableChld,
    EnableTerminators,
    EnableStoppers,
    DisableTerminators,
    DisableStoppers,
    DisableAll,
    EnterSubshell { ignore_int_quit: bool, keep_stoppers: bool },
    Catch { sig: u8 },
    TakeIfCaught { sig: u8 },
    TakeCaught,
}

#[derive(Clone, Debug, Serialize, Deserialize)]
pub struct Hist {
    /// bit i set: signal i of SIGS is ignored on entry
    pub initially_ignored: u16,
    pub ops: Vec<Op>,
}

fn gen_hist(rng: &mut Rng, tier: Tier) -> Hist {
    let n = rng.range(
        1,
        match tier {
            Tier::Quick => 14,
            Tier::Thorough => 25,
        },
    );
    let initially_ignored = if rng.bool() { 0 } else { (rng.next_u64() & 0x7f) as u16 };
    let mut ops = Vec::new();
    for _ in 0..n {
        let op = match rng.below(24) {
            0..=8 => Op::SetAction {
                sig: rng.below(SIGS.len() as u32) as u8,
                action: rng.below(3) as u8,
                over: rng.below(4) == 0,
            },
            9 => Op::SetExit {
                action: rng.below(3) as u8,
            },
            10 => Op::EnableChld,
            11..=12 => Op::EnableTerminators,
            13 => Op::EnableStoppers,
            14 => Op::DisableTerminators,
            15 => Op::DisableStoppers,
            16 => Op::DisableAll,
            17..=18 => Op::EnterSubshell {
                ignore_int_quit: rng.bool(),
                keep_stoppers: rng.bool(),
            },
            19..=20 => Op::Catch {
                sig: rng.below(7) as u8,
            },
            21..=22 => Op::TakeIfCaught {
                sig: rng.below(7) as u8,
            },
            _ => Op::TakeCaught,
        };
        ops.push(op);
    }
    Hist {
        initially_ignored,
        ops,
    }
}

#[derive(Clone, Copy, Debug, PartialEq, Eq, PartialOrd, Ord)]
enum D {
    Default,
    Ignore,
    Catch,
}

#[derive(Clone, Debug, PartialEq)]
enum A {
    Default,
    Ignore,
    Command(u32),
}

impl A {
    fn disp(&self) -> D {
        match self {
            A::Default => D::Default,
            A::Ignore => D::Ignore,
            A::Command(_) => D::Catch,
        }
    }
}

/// Reference for one signal, written from docs/src/environment/traps.md and
/// the module documentation of yash_env::trap.
#[derive(Clone, Debug)]
struct MSig {
    initial: D,
    /// the user-visible action; starts as the initial disposition
    action: A,
    /// the action has been set by the user or by subshell entry (not inherited)
    touched: bool,
    /// trap of the parent shell, remembered for display in a subshell
    parent: Option<A>,
    internal: D,
    /// Some(flag) when known
    pending: Option<bool>,
    /// an entry exists in the trap set (pending can only be recorded then)
    known: bool,
}

impl MSig {
    fn effective(&self) -> D {
        if !self.known {
            self.initial
        } else {
            self.internal.max(self.action.disp())
        }
    }
}

fn to_d(d: Disposition) -> D {
    match d {
        Disposition::Default => D::Default,
        Disposition::Ignore => D::Ignore,
        Disposition::Catch => D::Catch,
    }
}

fn act_of(a: &Action) -> String {
    match a {
        Action::Default => "default".into(),
        Action::Ignore => "ignore".into(),
        Action::Command(c) => format!("command({c})"),
    }
}

fn mact(a: &A) -> String {
    match a {
        A::Default => "default".into(),
        A::Ignore => "ignore".into(),
        A::Command(k) => format!("command(c{k})"),
    }
}

pub fn run_hist(h: &Hist, hash_out: &mut u64, reach: &mut BTreeMap<&'static str, u64>) -> Option<(String, String)> {
    let r = crate::sim::catch(|| {
        let inner = VirtualSystem::new();
        let mut model: Vec<MSig> = Vec::new();
        for (i, (_, sig)) in SIGS.iter().enumerate() {
            let ign = h.initially_ignored >> i & 1 == 1 && *sig != SIGKILL && *sig != SIGSTOP;
            if ign {
                inner.sigaction(*sig, Disposition::Ignore).unwrap();
            }
            model.push(MSig {
                initial: if ign { D::Ignore } else { D::Default },
                action: if ign { A::Ignore } else { A::Default },
                touched: false,
                parent: None,
                internal: D::Default,
                pending: Some(false),
                known: false,
            });
        }
        let mut exit_action = A::Default;
        let mut exit_parent: Option<A> = None;
        let system = Rc::new(Concurrent::new(inner.clone()));
        let mut traps = TrapSet::default();
        let mut next_cmd = 0u32;
        let mut hash = fnv1a(b"c11a");
        let idx_of = |n: Number| SIGS.iter().position(|(_, s)| *s == n);
        for (step, op) in h.ops.iter().enumerate() {
            let fail = |class: &str, msg: String| Some((class.to_string(), format!("operation #{step} {op:?}: {msg}")));
            let mk_action = |a: u8, next_cmd: &mut u32| -> (Action, A) {
                match a {
                    0 => (Action::Default, A::Default),
                    1 => (Action::Ignore, A::Ignore),
                    _ => {
                        *next_cmd += 1;
                        (Action::Command(format!("c{}", *next_cmd).into()), A::Command(*next_cmd))
                    }
                }
            };
            let set_internal = |model: &mut Vec<MSig>, sig: Number, d: D| {
                let m = &mut model[idx_of(sig).unwrap()];
                if !m.known && d == D::Default {
                    return;
                }
                m.known = true;
                m.internal = d;
            };
            match op {
                Op::SetAction { sig, action, over } => {
                    let (name, number) = SIGS[*sig as usize];
                    let (act, mact_new) = mk_action(*action, &mut next_cmd);
                    let res = traps
                        .set_action(&system, number, act, Location::dummy("x"), *over)
                        .now_or_never()
                        .expect("set_action blocked");
                    let m = &mut model[*sig as usize];
                    let want: Result<(), SetActionError> = if number == SIGKILL {
                        Err(SetActionError::SIGKILL)
                    } else if number == SIGSTOP {
                        Err(SetActionError::SIGSTOP)
                    } else if !*over && m.initial == D::Ignore && !m.touched {
                        // a signal ignored on entry can be neither trapped nor reset
                        Err(SetActionError::InitiallyIgnored)
                    } else {
                        Ok(())
                    };
                    if res != want {
                        return fail(
                            "set-action-result",
                            format!("trap for SIG{name} returned {res:?}, the documentation implies {want:?} (initially {:?}, action so far {}, set by user/subshell: {})", m.initial, mact(&m.action), m.touched),
                        );
                    }
                    if number != SIGKILL && number != SIGSTOP {
                        // every other trap's remembered parent state is dropped
                        for mm in model.iter_mut() {
                            mm.parent = None;
                        }
                        exit_parent = None;
                        let m = &mut model[*sig as usize];
                        m.known = true;
                        if want.is_ok() {
                            m.action = mact_new;
                            m.touched = true;
                            m.pending = None;
                        }
                    }
                    if want.is_err() {
                        *reach.entry("trap refused (initially ignored / KILL / STOP)").or_insert(0) += 1;
                    }
                }
                Op::SetExit { action } => {
                    let (act, m) = mk_action(*action, &mut next_cmd);
                    let res = traps
                        .set_action(&system, Condition::Exit, act, Location::dummy("x"), false)
                        .now_or_never()
                        .expect("set_action blocked");
                    if res.is_err() {
                        return fail("set-action-result", format!("EXIT trap refused: {res:?}"));
                    }
                    for mm in model.iter_mut() {
                        mm.parent = None;
                    }
                    exit_parent = None;
                    exit_action = m;
                }
                Op::EnableChld => {
                    traps.enable_internal_disposition_for_sigchld(&system).now_or_never().unwrap().ok();
                    set_internal(&mut model, SIGCHLD, D::Catch);
                }
                Op::EnableTerminators => {
                    traps.enable_internal_dispositions_for_terminators(&system).now_or_never().unwrap().ok();
                    set_internal(&mut model, SIGINT, D::Catch);
                    set_internal(&mut model, SIGTERM, D::Ignore);
                    set_internal(&mut model, SIGQUIT, D::Ignore);
                }
                Op::EnableStoppers => {
                    traps.enable_internal_dispositions_for_stoppers(&system).now_or_never().unwrap().ok();
                    set_internal(&mut model, SIGTSTP, D::Ignore);
                    set_internal(&mut model, SIGTTIN, D::Ignore);
                }
                Op::DisableTerminators => {
                    traps.disable_internal_dispositions_for_terminators(&system).now_or_never().unwrap().ok();
                    for s in [SIGINT, SIGTERM, SIGQUIT] {
                        set_internal(&mut model, s, D::Default);
                    }
                }
                Op::DisableStoppers => {
                    traps.disable_internal_dispositions_for_stoppers(&system).now_or_never().unwrap().ok();
                    for s in [SIGTSTP, SIGTTIN] {
                        set_internal(&mut model, s, D::Default);
                    }
                }
                Op::DisableAll => {
                    traps.disable_internal_dispositions(&system).now_or_never().unwrap().ok();
                    for s in [SIGCHLD, SIGINT, SIGTERM, SIGQUIT, SIGTSTP, SIGTTIN] {
                        set_internal(&mut model, s, D::Default);
                    }
                }
                Op::EnterSubshell {
                    ignore_int_quit,
                    keep_stoppers,
                } => {
                    if *ignore_int_quit {
                        // what subshell::Config::start does before forking an
                        // asynchronous list without job control: the child
                        // starts with SIGINT and SIGQUIT blocked and relies on
                        // enter_subshell to unblock them
                        use yash_env::subshell::BlockSignals as _;
                        system.block_sigint_sigquit().now_or_never().expect("block blocked").ok();
                    }
                    traps
                        .enter_subshell(&system, *ignore_int_quit, *keep_stoppers)
                        .now_or_never()
                        .expect("enter_subshell blocked");
                    *reach.entry("subshell entered").or_insert(0) += 1;
                    for (i, (_, number)) in SIGS.iter().enumerate() {
                        let m = &mut model[i];
                        m.parent = None;
                        let forced_ignore = (*ignore_int_quit && (*number == SIGINT || *number == SIGQUIT))
                            || (*keep_stoppers
                                && (*number == SIGTSTP || *number == SIGTTIN)
                                && m.known
                                && m.internal != D::Default);
                        if m.known {
                            // command traps are reset to default, remembered for display
                            if let A::Command(_) = m.action {
                                m.parent = Some(m.action.clone());
                                m.action = A::Default;
                                m.touched = true;
                                m.pending = Some(false);
                            }
                            if forced_ignore {
                                m.action = A::Ignore;
                                m.internal = D::Default;
                            } else if *number != SIGCHLD {
                                m.internal = D::Default;
                            }
                        } else if forced_ignore && (*number == SIGINT || *number == SIGQUIT) {
                            m.known = true;
                            m.action = A::Ignore;
                            // a signal the subshell ignores by itself can be trapped later;
                            // one that was already ignored on entry cannot
                            m.touched = m.initial != D::Ignore;
                        }
                    }
                    if let A::Command(_) = exit_action {
                        exit_parent = Some(exit_action.clone());
                        exit_action = A::Default;
                    } else {
                        exit_parent = None;
                    }
                }
                Op::Catch { sig } => {
                    let (_, number) = SIGS[*sig as usize];
                    traps.catch_signal(number);
                    let m = &mut model[*sig as usize];
                    if m.known {
                        m.pending = Some(true);
                    }
                }
                Op::TakeIfCaught { sig } => {
                    let (name, number) = SIGS[*sig as usize];
                    let got = traps.take_signal_if_caught(number).map(|s| s.action.clone());
                    let m = &mut model[*sig as usize];
                    if let Some(p) = m.pending
                        && got.is_some() != p
                    {
                        return fail("pending", format!("take_signal_if_caught(SIG{name}) returned {:?} but the pending flag should be {p}", got.map(|a| act_of(&a))));
                    }
                    m.pending = Some(false);
                }
                Op::TakeCaught => {
                    let got = traps.take_caught_signal().map(|(n, _)| n);
                    match got {
                        Some(n) => {
                            let Some(i) = idx_of(n) else {
                                return fail("pending", format!("take_caught_signal returned unknown signal {n}"));
                            };
                            if model[i].pending == Some(false) {
                                return fail("pending", format!("take_caught_signal returned SIG{} which is not pending (run twice)", SIGS[i].0));
                            }
                            model[i].pending = Some(false);
                        }
                        None => {
                            if let Some(i) = model.iter().position(|m| m.pending == Some(true)) {
                                return fail("pending", format!("take_caught_signal returned nothing although SIG{} is pending (lost delivery)", SIGS[i].0));
                            }
                        }
                    }
                }
            }
            // ---- compare the whole state with the reference
            let proc = inner.current_process();
            for (i, (name, number)) in SIGS.iter().enumerate() {
                let m = &model[i];
                let got = to_d(proc.disposition(*number));
                let want = m.effective();
                if got != want {
                    return fail(
                        "disposition",
                        format!(
                            "SIG{name}: installed disposition {got:?}, expected {want:?} (initial {:?}, trap action {}, internal {:?})",
                            m.initial,
                            mact(&m.action),
                            m.internal
                        ),
                    );
                }
                let blocked = proc.blocked_signals().contains(*number) == Ok(true);
                if blocked != (want == D::Catch) {
                    return fail(
                        "mask",
                        format!("SIG{name}: blocked={blocked} but the disposition is {want:?} (a caught signal must be blocked outside select, others not)"),
                    );
                }
                let (cur, parent) = traps.get_state(*number);
                let shown = cur.map(|s| act_of(&s.action)).unwrap_or_else(|| mact(&if m.initial == D::Ignore { A::Ignore } else { A::Default }));
                if shown != mact(&m.action) {
                    return fail("listing", format!("SIG{name}: trap action shown {shown}, expected {}", mact(&m.action)));
                }
                let pshown = parent.map(|s| act_of(&s.action));
                if pshown != m.parent.as_ref().map(mact) {
                    return fail("listing", format!("SIG{name}: parent trap shown {pshown:?}, expected {:?}", m.parent.as_ref().map(mact)));
                }
                hash = fnv_combine(hash, (got as u64) << 4 | (m.internal as u64) << 2 | m.action.disp() as u64);
            }
            drop(proc);
            let (cur, parent) = traps.get_state(Condition::Exit);
            let shown = cur.map(|s| act_of(&s.action)).unwrap_or("default".into());
            if shown != mact(&exit_action) {
                return fail("listing", format!("EXIT: trap action shown {shown}, expected {}", mact(&exit_action)));
            }
            if parent.map(|s| act_of(&s.action)) != exit_parent.as_ref().map(mact) {
                return fail("listing", "EXIT: parent trap differs".into());
            }
        }
        *hash_out = hash;
        None
    });
    match r {
        Ok(v) => v,
        Err(p) => Some(("panic".into(), p)),
    }
}


// =====================================================================
// Engine (b): delivery timing in whole scripts
// =====================================================================

#[derive(Clone, Debug, Serialize, Deserialize)]
pub struct Script {
    pub lines: Vec<String>,
    /// which of USR1 / USR2 have a command trap (the other one is ignored or untouched-and-never-sent)
    pub trap1: bool,
    pub trap2: u8, // 0 none (never sent), 1 command, 2 ignored, 3 ignored on entry (trap refused)
    /// spaced: the next signal is sent only after the previous action finished
    pub spaced: bool,
    pub rate: u32,
    pub max_signals: u32,
    /// how the script ends: 0 disarmed, then ordinary commands; 1 still armed,
    /// `exit` whose operand is a slow command substitution; 2 still armed,
    /// errexit on a slow failing subshell. In 1 and 2 the last command
    /// boundary is the one after the command that makes the shell exit: a
    /// signal that arrives while that command runs must still be handled.
    #[serde(default)]
    pub ending: u8,
    /// Some(v): a fixed scenario in which a foreground child sends two trapped
    /// signals to the shell and the action that runs first diverts (0 break,
    /// 1 continue, 2 return from a function, 3 no divert but the action of the
    /// other signal is reset by the first): every action still runs exactly
    /// once (or, for 3, the reset one not at all). No simulator-sent signals.
    #[serde(default)]
    pub divert: Option<u8>,
    /// the shell is interactive (`-i`): a built-in that blocks - `read` - can
    /// be interrupted by SIGINT, and signals caught while it runs are noted by
    /// a helper next to it
    #[serde(default)]
    pub interactive: bool,
    /// naps before each line of the shell's standard input (a pipe written by
    /// a slow feeder): one line for each `read` of the script, which blocks
    /// in the main shell until its line arrives
    #[serde(default)]
    pub feed: Vec<u32>,
}

fn divert_script(v: u8) -> Vec<String> {
    let mut l: Vec<String> = Vec::new();
    match v {
        0 | 1 => {
            // a signal that arrives while another action runs is handled when
            // that action has finished, before the next command
            l.push("trap 'echo t1; ( kill -s USR1 $$ ); echo t1done' TERM".into());
            l.push("trap 'echo u1' USR1".into());
            l.push("trap 'echo u2' USR2".into());
            if v == 0 {
                l.push("if ( kill -s USR2 $$; kill -s TERM $$ ); then echo then; fi".into());
            } else {
                l.push("f() { ( kill -s USR2 $$; kill -s TERM $$ ); echo then; }; f".into());
            }
        }
        2 => {
            l.push("trap 'echo u1; return 3' USR1".into());
            l.push("trap 'echo u2' USR2".into());
            l.push("f() { ( kill -s USR2 $$; kill -s USR1 $$ ); echo in-f; }".into());
            l.push("f; echo \"?=$?\"".into());
        }
        4 | 5 => {
            // the `wait` built-in inside a trap action: a trapped signal that
            // arrives while it waits interrupts it (status > 128) and has its
            // action run at once, nested in the running action
            let w = if v == 4 { "wait $j" } else { "wf() { wait $j; }; wf" };
            l.push(format!(
                "trap 'echo u1; {{ nap 8; }} & j=$!; {w}; s=$?; echo \"w=$((s>128))\"; wait $j; echo u1done' USR1"
            ));
            l.push("trap 'echo u2' USR2".into());
            l.push("{ nap 3; kill -s USR2 $$; } &".into());
            l.push("( kill -s USR1 $$ )".into());
            l.push("echo mid".into());
            l.push("wait".into());
        }
        10 | 11 => {
            // a signal caught while the action of another one runs is handled
            // when that action has finished - also when the running action
            // sets the trap of the caught signal again (10: to the same
            // command; 11: to another command, which is the one to run)
            l.push("trap 'echo u1' USR1".into());
            l.push(format!(
                "trap 'echo in; ( kill -s USR1 $$ ); trap \"echo {}\" USR1; echo out' USR2",
                if v == 10 { "u1" } else { "u1new" }
            ));
            l.push("( kill -s USR2 $$ )".into());
        }
        8 | 9 => {
            // a subshell sets the very trap its parent has (in the subshell it
            // had been reset to default: the action must be installed again);
            // 9: the parent's action differs only in the signal it is for
            l.push("trap 'echo u1' USR1".into());
            if v == 9 {
                l.push("trap 'echo u1' USR2".into());
            }
            l.push("( trap 'echo u1' USR1; selfkill USR1; echo alive ); echo \"?=$?\"".into());
            l.push("( trap '' USR2; trap '' USR2; selfkill USR2; echo alive2 ); echo \"?=$?\"".into());
        }
        6 | 7 => {
            // `exit` without an operand in a trap action: the shell exits with the
            // value `$?` had just before the action - also under errexit (6),
            // where the action's own last status comes from a failure errexit
            // tolerates
            if v == 6 {
                l.push("set -e".into());
            }
            l.push("trap 'echo \"exit-trap ?=$?\"' EXIT".into());
            l.push("trap 'echo u1; rc 1 && :; exit' USR1".into());
            // (a plain command: errexit is applicable where the action runs)
            l.push("( kill -s USR1 $$ )".into());
            l.push("echo NEVER".into());
            return l;
        }
        _ => {
            l.push("trap 'echo u1; trap - USR2' USR1".into());
            l.push("trap 'echo u2' USR2".into());
            l.push("( kill -s USR2 $$; kill -s USR1 $$ )".into());
            l.push("echo mid".into());
        }
    }
    l.push("echo end".into());
    l
}

fn gen_script(rng: &mut Rng, tier: Tier) -> Script {
    if rng.below(12) == 0 {
        let v = rng.below(12) as u8;
        return Script {
            lines: divert_script(v),
            trap1: true,
            trap2: 1,
            spaced: true,
            rate: 0,
            max_signals: 0,
            ending: 0,
            divert: Some(v),
            interactive: false,
            feed: Vec::new(),
        };
    }
    let trap1 = true;
    let trap2 = rng.below(4) as u8;
    let interactive = rng.below(4) == 0;
    // (an interactive shell may trap a signal that was ignored on entry)
    let trap2 = if interactive && trap2 == 3 { 1 } else { trap2 };
    let ending = *rng.pick(&[0u8, 0, 0, 1, 2]);
    let mut lines = Vec::new();
    let nap1 = if rng.below(3) == 0 { format!("nap {}; ", rng.range(1, 3)) } else { String::new() };
    // (under errexit a failing last command of the action would itself end the shell)
    let last = if ending == 2 { "" } else { "; rc 7" };
    // (`mark` returns the `$?` it found, non-zero on entry to an action that
    // runs after the failed command: `|| :` keeps errexit out of the action)
    let guard = if ending == 2 { " || :" } else { "" };
    // (trap2 == 3, every other time: one `trap` command for both signals, the
    // refused one first - the other one must still get its action)
    let both = trap2 == 3 && rng.bool();
    if both {
        lines.push(format!(
            "trap 'mark tb U1{guard}; {nap1}echo u1 >>/work/tlog; mark te U1{last}' USR2 USR1 2>/dev/null; echo \"trap=$?\""
        ));
    } else {
        lines.push(format!("trap 'mark tb U1{guard}; {nap1}echo u1 >>/work/tlog; mark te U1{last}' USR1"));
    }
    match trap2 {
        3 if both => {}
        1 => lines.push(format!(
            "trap 'mark tb U2{guard}; echo u2 >>/work/tlog; mark te U2{}' USR2",
            if ending == 2 { "" } else { "; rc 9" }
        )),
        2 => lines.push("trap '' USR2".into()),
        // the shell was started with USR2 ignored: the trap must be refused
        // and the signal must stay ignored
        3 => lines.push(format!("trap 'mark tb U2{guard}; mark te U2' USR2 2>/dev/null; echo \"trap=$?\"")),
        _ => {}
    }
    // an EXIT trap: runs exactly once, after the signal traps that are still
    // pending when the shell leaves (its output is part of the compared stdout)
    if rng.below(3) == 0 {
        lines.push("trap 'echo exit-trap \"?=$?\"' EXIT".into());
    }
    lines.push("mark armed".into());
    let n = rng.range(
        3,
        match tier {
            Tier::Quick => 9,
            Tier::Thorough => 14,
        },
    );
    let mut w = 0;
    let mut word = |w: &mut u32| {
        *w += 1;
        format!("w{}", *w)
    };
    let reads = rng.below(3) == 0 || interactive;
    let mut feed: Vec<u32> = Vec::new();
    for i in 0..n {
        if reads && rng.below(4) == 0 && feed.len() < 3 {
            // the main shell itself blocks in `read` until the feeder delivers the line
            feed.push(rng.range(2, 7));
            lines.push(format!("read r{i}; echo \"r=$r{i} ?=$?\""));
        }
        let line = match rng.below(13) {
            0 | 1 => format!("echo {}", word(&mut w)),
            2 | 3 => format!("rc {}; echo \"?=$?\"", rng.pick(&[0u8, 1, 5, 42])),
            4 => format!("if rc 0; then echo {}; rc 3; fi; echo \"?=$?\"", word(&mut w)),
            5 => "for i in 1 2 3; do echo \"i$i\"; done; echo \"?=$?\"".to_string(),
            6 => format!("f{i}() {{ echo in-f{i}; rc 4; }}; f{i}; echo \"?=$?\""),
            7 => format!("v=$(echo {}; rc 2); echo \"v=$v ?=$?\"", word(&mut w)),
            8 => format!("echo {} | {{ read x; echo \"got $x\"; rc 6; }}; echo \"?=$?\"", word(&mut w)),
            9 => format!("{{ nap {}; echo late; }} | {{ read y; echo \"y=$y\"; }}; echo \"?=$?\"", rng.range(1, 4)),
            10 => format!("nap {}; echo \"?=$?\"", rng.range(1, 4)),
            11 => format!(
                "{{ nap {}; exit 0; }} & p=$!; until {}wait $p; do :; done; echo waited{i}",
                rng.range(1, 5),
                if rng.below(3) == 0 { "command " } else { "" }
            ),
            _ => format!("( echo {}; exit 8 ); echo \"?=$?\"", word(&mut w)),
        };
        // a built-in that runs commands of its own (and their trap actions)
        // inside another built-in: in an interactive shell `command` runs next
        // to the helper that records caught signals, `eval` does not
        let line = match rng.below(8) {
            0 => format!("eval '{line}'"),
            1 | 2 => format!("command eval '{line}'"),
            _ => line,
        };
        lines.push(line);
    }
    match ending {
        1 => lines.push(format!("exit $(nap {}; mark disarmed; nap 1; echo 5)", rng.range(1, 4))),
        2 => lines.push(format!("set -e; ( nap {}; mark disarmed; nap 1; exit 3 )", rng.range(1, 4))),
        _ => {
            lines.push("mark disarmed".into());
            lines.push("echo end".into());
            lines.push("rc 0; echo \"?=$?\"".into());
        }
    }
    Script {
        lines,
        trap1,
        trap2,
        spaced: rng.bool(),
        rate: *rng.pick(&[30u32, 80, 200, 500]),
        max_signals: rng.range(1, 4),
        ending,
        divert: None,
        interactive,
        feed,
    }
}

fn signal_env(s: &Script, inject: bool) -> impl FnMut(&mut Sim, u64) -> bool + use<> {
    crate::shellrun::signal_env(crate::shellrun::SigPlan {
        inject,
        spaced: s.spaced,
        rate: s.rate,
        max: s.max_signals,
        second: s.trap2,
    })
}

fn spec_of(s: &Script) -> ScriptSpec {
    ScriptSpec {
        script: s.lines.join("\n") + "\n",
        dash_c: true,
        options: if s.interactive { vec!["-i".into()] } else { Vec::new() },
        ..Default::default()
    }
}

fn check_script(s: &Script, base: &Observed, obs: &Observed) -> Option<Viol> {
    if let Some(v) = check_liveness(obs) {
        return Some(v);
    }
    if let Some(v) = s.divert {
        let count = |w: &str| obs.stdout.lines().filter(|l| *l == w).count();
        let (u1, u2) = (count("u1"), count("u2"));
        // (3: the trap of USR2 is reset by the action of USR1 while USR2 is pending)
        let want_u2 = if v == 3 { 0 } else { 1 };
        // (0, 1: everything pending has run before the next command `echo then`)
        if v >= 10 {
            let want = if v == 10 { "in\nout\nu1\nend\n" } else { "in\nout\nu1new\nend\n" };
            if obs.stdout != want || obs.status != "exited:0" {
                return Some((
                    "lost".into(),
                    "trap-set-again-while-pending".into(),
                    format!(
                        "a trapped signal is caught while the action of another signal runs, and that action sets the trap of the caught signal again: expected stdout {want:?} status exited:0; observed stdout {:?} status {} stderr {:?}",
                        obs.stdout, obs.status, obs.stderr
                    ),
                ));
            }
            return None;
        }
        if v >= 8 {
            let want = "u1\nalive\n?=0\nalive2\n?=0\nend\n";
            if obs.stdout != want || obs.status != "exited:0" {
                return Some((
                    "lost".into(),
                    "subshell-same-trap".into(),
                    format!(
                        "a subshell sets the same trap its parent has and sends itself the signal: expected stdout {want:?} status exited:0; observed stdout {:?} status {} stderr {:?}",
                        obs.stdout, obs.status, obs.stderr
                    ),
                ));
            }
            return None;
        }
        if v >= 6 {
            let want = "u1\nexit-trap ?=0\n";
            if obs.stdout != want || obs.status != "exited:0" {
                return Some((
                    "divert".into(),
                    "exit-in-action".into(),
                    format!(
                        "`exit` without an operand in a trap action that ran when `$?` was 0 and whose own last status is 1{}: expected stdout {want:?} status exited:0; observed stdout {:?} status {} stderr {:?}",
                        if v == 6 { " (errexit on)" } else { "" },
                        obs.stdout, obs.status, obs.stderr
                    ),
                ));
            }
            return None;
        }
        if v >= 4 {
            let want = "u1\nu2\nw=1\nu1done\nmid\nend\n";
            if obs.stdout != want || obs.status != "exited:0" {
                return Some((
                    if u2 == 0 { "lost" } else { "divert" }.into(),
                    "wait-in-action".into(),
                    format!(
                        "a trapped signal arrives while `wait` is waiting inside the action of another signal: expected stdout {want:?} status exited:0; observed stdout {:?} status {} stderr {:?}",
                        obs.stdout, obs.status, obs.stderr
                    ),
                ));
            }
            return None;
        }
        let order_ok = v > 1 || {
            let pos = |w: &str| obs.stdout.lines().position(|l| l == w);
            match (pos("t1done"), pos("u1"), pos("u2"), pos("then")) {
                (Some(a), Some(b), Some(c), Some(d)) => a < b && b < d && c < d,
                _ => false,
            }
        };
        if u1 != 1 || u2 != want_u2 || !order_ok || !obs.stdout.ends_with("end\n") || obs.status != "exited:0" {
            return Some((
                if u2 < want_u2 { "lost" } else { "divert" }.into(),
                "divert".into(),
                format!(
                    "two trapped signals pending at one command boundary, the first action diverts: the USR1 action ran {u1} times and the USR2 action {u2} times (expected 1 and {want_u2}); stdout {:?} status {} stderr {:?}",
                    obs.stdout, obs.status, obs.stderr
                ),
            ));
        }
        return None;
    }
    if obs.stdout != base.stdout || obs.status != base.status || obs.stderr != base.stderr {
        return Some((
            "interference".into(),
            "interference".into(),
            format!(
                "with signals delivered: stdout {:?} status {} stderr {:?}\nwithout signals: stdout {:?} status {}",
                obs.stdout, obs.status, obs.stderr, base.stdout, base.status
            ),
        ));
    }
    // deliveries and trap runs, per signal; runs never nest
    let mut delivered = [0u32; 3];
    let mut runs = [0u32; 3];
    let mut in_trap: Option<String> = None;
    for e in &obs.history {
        if e.kind == "deliver" {
            delivered[e.a as usize] += 1;
        }
        if e.kind == "mark" && e.pid == 2 {
            if let Some(which) = e.text.strip_prefix("tb ") {
                let which = which.split_whitespace().next().unwrap_or("");
                if let Some(outer) = &in_trap {
                    return Some((
                        "nested".into(),
                        "nested".into(),
                        format!("the trap for {which} started while the trap for {outer} was still running"),
                    ));
                }
                in_trap = Some(which.to_string());
                runs[if which == "U1" { 1 } else { 2 }] += 1;
            } else if e.text.starts_with("te ") {
                in_trap = None;
            }
        }
    }
    for (i, name) in [(1usize, "USR1"), (2, "USR2")] {
        let has_trap = if i == 1 { s.trap1 } else { s.trap2 == 1 };
        let (d, r) = (delivered[i], runs[i]);
        if !has_trap {
            if r != 0 {
                return Some(("count".into(), "count".into(), format!("SIG{name} has no command trap but an action ran")));
            }
            continue;
        }
        let ok = if s.spaced { r == d } else { r <= d && (d == 0 || r >= 1) };
        if !ok {
            let class = if r > d { "duplicated" } else { "lost" };
            return Some((
                class.into(),
                format!("count:{class}"),
                format!(
                    "SIG{name}: {d} deliveries but the trap action ran {r} times ({} mode: {})",
                    if s.spaced { "spaced" } else { "burst" },
                    if s.spaced { "exactly one run per delivery expected" } else { "1..=deliveries runs expected (pending identical signals may coalesce)" }
                ),
            ));
        }
    }
    None
}

fn draw_config(rng: &mut Rng, k: u32) -> SimConfig {
    let strategy = if k == 0 {
        Strategy::Fifo
    } else {
        match rng.below(10) {
            0..=5 => Strategy::Random,
            6..=7 => Strategy::Pct(rng.range(1, 3)),
            _ => Strategy::RoundRobin,
        }
    };
    SimConfig {
        strategy,
        preempt_permille: *rng.pick(&[0u32, 50, 200, 500]),
        max_steps: 100_000,
        ..Default::default()
    }
}

fn run_script_case(s: &Script, cfg: &SimConfig, decider: Decider) -> (Observed, Option<Viol>) {
    // the same script without signals gives the expected stdout and status
    let base_cfg = SimConfig::default();
    let ignore_usr2 = s.trap2 == 3;
    let feed = s.feed.clone();
    let setup = |w: &mut crate::world::World| {
        if ignore_usr2 {
            w.system.sigaction(SIGUSR2, Disposition::Ignore).ok();
        }
        if !feed.is_empty() {
            crate::shellrun::plumb_slow_stdin(
                w,
                feed.iter().enumerate().map(|(j, nap)| (*nap as u64, format!("d{j} x\n").into_bytes())).collect(),
            );
        }
    };
    let base = run_script_with(&spec_of(s), &base_cfg, Decider::record(Rng::new(1)), &setup, signal_env(s, false));
    if ignore_usr2 && !base.stdout.contains("trap=") {
        return (base, Some(("trace".into(), "trace".into(), "the script did not report the status of the refused trap".into())));
    }
    // (POSIX: no error need be reported for the refused trap; what matters is
    // that the action never runs and the signal stays ignored - checked below)
    let obs = run_script_with(&spec_of(s), cfg, decider, &setup, signal_env(s, true));
    let v = check_script(s, &base, &obs);
    (obs, v)
}

#[derive(Clone, Debug, Serialize, Deserialize)]
enum Stored {
    Hist(Hist),
    Script(Script),
}

pub struct C11;

impl Prop for C11 {
    fn id(&self) -> &'static str {
        "C11"
    }
    fn level(&self) -> &'static str {
        "exploration"
    }
    fn rule(&self) -> String {
        "Engine (a): seeded histories of up to 25 operations over {set trap action default/ignore/command with and without override for USR1, CHLD, INT, TERM, QUIT, TSTP, TTIN, KILL, STOP and EXIT; enable/disable the internal dispositions (SIGCHLD; terminators; stoppers; all); enter_subshell with each option combination; mark caught / take caught} x each signal initially default or ignored, applied to the real TrapSet against the real Rc<Concurrent<VirtualSystem>>; after every operation, for every signal: disposition read from the simulated process == max(internal, disposition of the trap action) of the reference, blocked <=> caught, listing == reference, error == reference. A history is distinct non-trivial if the trajectory of (disposition, internal, action) over all signals and operations is new. Engine (b): scripts of simple commands, compound commands, functions, command substitutions, pipelines, a read from a slow pipe, sleeps and an interruptible wait, with traps on USR1/USR2 (command, ignored or none) whose actions log begin/end markers and end with a failing command; the simulator sends 1-4 signals to the main shell at seeded scheduler steps while the traps are installed (spaced: next one only after the previous action ended; burst: any time), under seeded schedules with preemption between kernel calls. Oracles: stdout, every printed $? and the final status equal those of the same script without signals; trap runs == deliveries (spaced) / 1..=deliveries (burst, identical pending signals may coalesce); a trap never starts inside another; distinct = (script, schedule hash, signal count). Fixed scenarios (no simulator-sent signals, a child sends them): two trapped signals pending at one command boundary while the first action diverts (break / continue / return / resets the other trap); the `wait` built-in blocked inside a trap action when another trapped signal arrives (it returns > 128 and that action runs at once, nested). A quarter of the scripts run as interactive shells (`-i`: built-ins are interruptible and run next to a helper that records caught signals), a third read lines from a standard input written by a slow feeder process, so that the main shell blocks in `read` while signals arrive. A quarter of the script lines are wrapped in `eval` / `command eval` (and `command wait` in the wait loops): commands whose trap actions run inside a built-in.".into()
    }
    fn assumptions(&self) -> Vec<String> {
        vec![
            "the reference merge is written from docs/src/environment/traps.md and the yash_env::trap module documentation".into(),
            "histories are sampled, not enumerated".into(),
        ]
    }
    fn components(&self) -> Value {
        json!({"real": ["yash-env trap.rs / trap/state.rs (TrapSet, GrandState)", "Concurrent SignalSystem (disposition + mask)", "VirtualSystem sigaction/sigmask"], "stub": ["operation-history driver", "reference merge model"]})
    }
    fn cases(&self, tier: Tier) -> u64 {
        match tier {
            Tier::Quick => 400_000,
            Tier::Thorough => 4_000_000,
        }
    }

    fn run_case(&self, seed: u64, index: u64, tier: Tier, stats: &mut Stats) -> Option<Failure> {
        let mut rng = Rng::stream(seed, 11, index);
        if index % 40 == 39 {
            let s = gen_script(&mut rng, tier);
            let script_hash = hash_str(&s.lines.join("\n"));
            let plans = match tier {
                Tier::Quick => 6,
                Tier::Thorough => 12,
            };
            for k in 0..plans {
                let cfg = draw_config(&mut rng, k);
                let (obs, v) = run_script_case(&s, &cfg, Decider::record(Rng::stream(seed, 1100 + k as u64, index)));
                if s.interactive {
                    stats.count("mode:interactive", 1);
                }
                if !s.feed.is_empty() {
                    stats.count("mode:read-from-slow-stdin", 1);
                }
                stats.note_run(script_hash, &obs.outcome, obs.faults_fired);
                stats.add_counters(&obs.counters);
                stats.count("engine:delivery-timing", 1);
                stats.count(if s.spaced { "mode:spaced" } else { "mode:burst" }, 1);
                let runs = obs.history.iter().filter(|e| e.kind == "mark" && e.text.starts_with("tb ")).count() as u64;
                let dels = obs.history.iter().filter(|e| e.kind == "deliver").count() as u64;
                stats.count("trap_actions_run", runs);
                if !s.spaced && runs < dels {
                    stats.count("reach:trap coalesced", 1);
                }
                stats.digest(index, obs_digest(&obs));
                if k == 1 && stats.samples.len() < 4 && index % 400 == 39 {
                    stats.samples.push(json!({"engine": "delivery-timing", "script": s.lines, "spaced": s.spaced, "deliveries": dels, "trap_runs": runs,
                        "markers": obs.history.iter().filter(|e| e.kind == "mark" || e.kind == "deliver").map(|e| format!("#{} pid{} {} {}", e.seq, e.pid, e.kind, e.text)).take(20).collect::<Vec<_>>()}));
                }
                if let Some(v) = v {
                    return Some(Failure {
                        class: v.0,
                        key: format!("timing:{}", v.1),
                        detail: format!("{}\n--- script ---\n{}", v.2, s.lines.join("\n")),
                        case: serde_json::to_value(Stored::Script(s.clone())).unwrap(),
                        cfg,
                        decisions: obs.decisions.clone(),
                        history_tail: history_tail(&obs.history, 40),
                    });
                }
            }
            return None;
        }
        let h = gen_hist(&mut rng, tier);
        let mut hash = 0;
        let mut reach = BTreeMap::new();
        let v = run_hist(&h, &mut hash, &mut reach);
        stats.evaluations += 1;
        stats.count("engine:state-machine", 1);
        stats.count("operations_applied", h.ops.len() as u64);
        for (k, n) in reach {
            stats.count(&format!("reach:{k}"), n);
        }
        stats.distinct.insert(hash);
        stats.digest(index, hash);
        if stats.samples.len() < 2 && index % 4000 == 5 {
            stats.samples.push(json!({"engine": "state-machine", "history": serde_json::to_value(&h).unwrap()}));
        }
        v.map(|(class, detail)| Failure {
            key: format!("sm:{class}"),
            class,
            detail: format!("{detail}\n--- history ---\n{}", serde_json::to_string(&h).unwrap()),
            case: serde_json::to_value(Stored::Hist(h.clone())).unwrap(),
            cfg: SimConfig::default(),
            decisions: Vec::new(),
            history_tail: Vec::new(),
        })
    }

    fn rerun(&self, case: &Value, cfg: &SimConfig, _decisions: &[Decision]) -> Option<Failure> {
        match serde_json::from_value::<Stored>(case.clone()).ok()? {
            Stored::Script(s) => {
                let (obs, v) = run_script_case(&s, cfg, Decider::replay(_decisions));
                v.map(|v| Failure {
                    class: v.0,
                    key: format!("timing:{}", v.1),
                    detail: format!("{}\n--- script ---\n{}", v.2, s.lines.join("\n")),
                    case: case.clone(),
                    cfg: cfg.clone(),
                    decisions: obs.decisions.clone(),
                    history_tail: history_tail(&obs.history, 40),
                })
            }
            Stored::Hist(h) => {
                let mut hash = 0;
                let mut reach = BTreeMap::new();
                run_hist(&h, &mut hash, &mut reach).map(|(class, detail)| Failure {
                    key: format!("sm:{class}"),
                    class,
                    detail: format!("{detail}\n--- history ---\n{}", serde_json::to_string(&h).unwrap()),
                    case: case.clone(),
                    cfg: cfg.clone(),
                    decisions: Vec::new(),
                    history_tail: Vec::new(),
                })
            }
        }
    }

    fn shrink(&self, case: &Value) -> Vec<Value> {
        match serde_json::from_value::<Stored>(case.clone()) {
            Ok(Stored::Hist(h)) => {
                let mut out = Vec::new();
                for i in 0..h.ops.len() {
                    let mut n = h.clone();
                    n.ops.remove(i);
                    out.push(serde_json::to_value(Stored::Hist(n)).unwrap());
                }
                for b in 0..9 {
                    if h.initially_ignored >> b & 1 == 1 {
                        let mut n = h.clone();
                        n.initially_ignored &= !(1 << b);
                        out.push(serde_json::to_value(Stored::Hist(n)).unwrap());
                    }
                }
                out
            }
            // (a fixed scenario: removing a line changes its meaning)
            Ok(Stored::Script(s)) if s.divert.is_some() => Vec::new(),
            Ok(Stored::Script(s)) => {
                let mut out = Vec::new();
                for i in 0..s.lines.len() {
                    let l = &s.lines[i];
                    if l.starts_with("trap ") || l.starts_with("mark ") {
                        continue;
                    }
                    let mut n = s.clone();
                    n.lines.remove(i);
                    out.push(serde_json::to_value(Stored::Script(n)).unwrap());
                }
                if s.max_signals > 1 {
                    let mut n = s.clone();
                    n.max_signals -= 1;
                    out.push(serde_json::to_value(Stored::Script(n)).unwrap());
                }
                out
            }
            Err(_) => Vec::new(),
        }
    }
}
