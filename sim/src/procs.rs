//! Engine (k) of C13: the process table of the simulated kernel - fork, exit,
//! kill, sigmask, sigaction and wait - driven by seeded operation histories
//! against a reference model of the POSIX process life cycle.
//!
//! What the shell's own bookkeeping relies on: a state change of a child is
//! reported by `wait` exactly once and with the true status; `wait` fails
//! with ECHILD only when nothing is left to wait for; a terminated process is
//! not affected by signals; a reaped one no longer exists for `kill`; a
//! stopped process acts on signals only after SIGCONT (SIGKILL excepted); a
//! blocked signal stays pending until it is unblocked.

use crate::rng::Rng;
use serde::{Deserialize, Serialize};
use std::collections::{BTreeMap, BTreeSet};
use std::future::Future;
use std::rc::Rc;
use std::task::{Context, Poll, Waker};
use yash_env::job::{Pid, ProcessResult, ProcessState};
use yash_env::semantics::ExitStatus;
use yash_env::system::r#virtual::{Process, SIGCONT, SIGKILL, SIGSTOP, SIGTERM, SIGTSTP, SIGUSR1, VirtualSystem};
use yash_env::system::r#virtual::SIGCHLD;
use yash_env::system::{CaughtSignals as _, Disposition, Errno, Exit as _, SendSignal as _, SetPgid as _, Sigaction as _, Sigmask as _, SigmaskOp, Wait as _};

#[derive(Clone, Copy, Debug, Serialize, Deserialize, PartialEq)]
pub enum Sig {
    Term,
    Kill,
    Stop,
    Cont,
    Usr1,
    /// signal 0: existence test
    Null,
    /// a stop signal other than SIGSTOP (default action, never blocked here)
    Tstp,
}

#[derive(Clone, Debug, Serialize, Deserialize, PartialEq)]
pub enum KOp {
    /// process slot p forks a child (if p is running)
    Fork(u8),
    /// process slot p exits with the status
    Exit(u8, u8),
    /// slot `from` sends the signal to slot `to`
    Kill(u8, u8, Sig),
    /// slot p blocks / unblocks SIGTERM or SIGUSR1
    Block(u8, bool, bool),
    /// slot p sets the disposition of SIGTERM / SIGUSR1: 0 default 1 ignore 2 catch
    Action(u8, bool, u8),
    /// slot p waits for its child in slot c (255: any child)
    Wait(u8, u8),
    /// slot p calls setpgid(pid of slot t, G) where G is the pid of slot g
    /// (255: 0, i.e. a group of its own)
    SetPgid(u8, u8, u8),
    /// slot `from` sends the signal to the process group slot g is in
    /// (255: its own group, `kill(0, ...)`)
    KillGroup(u8, u8, Sig),
}

#[derive(Clone, Debug, Serialize, Deserialize, PartialEq)]
pub struct KHist {
    pub ops: Vec<KOp>,
}

pub fn generate(rng: &mut Rng, long: bool) -> KHist {
    let n = rng.range(3, if long { 45 } else { 22 });
    let w_wait = rng.range(2, 8);
    let w_kill = rng.range(2, 8);
    // (half of the histories use process groups)
    let groups = rng.bool();
    let mut ops = Vec::new();
    let slot = |rng: &mut Rng| rng.below(6) as u8;
    for step in 0..n {
        if step < 3 && rng.below(3) != 0 {
            ops.push(KOp::Fork(slot(rng)));
            continue;
        }
        let x = rng.below(w_wait + w_kill + if groups { 12 } else { 10 });
        ops.push(if x < w_wait {
            KOp::Wait(slot(rng), if rng.below(3) == 0 { 255 } else { slot(rng) })
        } else if x < w_wait + w_kill {
            KOp::Kill(
                slot(rng),
                slot(rng),
                *rng.pick(&[Sig::Term, Sig::Term, Sig::Kill, Sig::Stop, Sig::Stop, Sig::Tstp, Sig::Cont, Sig::Cont, Sig::Usr1, Sig::Null]),
            )
        } else {
            match x - w_wait - w_kill {
                0..=3 => KOp::Fork(slot(rng)),
                4..=5 => KOp::Exit(slot(rng), *rng.pick(&[0u8, 1, 7, 42])),
                6..=7 => KOp::Block(slot(rng), rng.bool(), rng.bool()),
                8 if groups => KOp::SetPgid(slot(rng), slot(rng), if rng.below(3) == 0 { 255 } else { slot(rng) }),
                9 if groups => KOp::KillGroup(
                    slot(rng),
                    if rng.below(4) == 0 { 255 } else { slot(rng) },
                    *rng.pick(&[Sig::Term, Sig::Stop, Sig::Tstp, Sig::Cont, Sig::Cont, Sig::Usr1, Sig::Null, Sig::Kill]),
                ),
                _ => KOp::Action(slot(rng), rng.bool(), rng.below(3) as u8),
            }
        });
    }
    KHist { ops }
}

#[derive(Clone, Copy, PartialEq, Debug)]
enum St {
    Running,
    Stopped,
    /// terminated with this wait status, not yet reported to the parent
    Zombie(i64),
    Reaped,
}

#[derive(Clone, Debug)]
struct MProc {
    pid: Pid,
    pgid: Pid,
    parent: Option<usize>,
    st: St,
    /// a stop / continue that the parent has not been told about yet
    unreported: bool,
    blocked: BTreeSet<&'static str>,
    pending: BTreeSet<&'static str>,
    /// other wait statuses the process may have terminated with (several fatal
    /// signals became deliverable at once: the order is unspecified)
    alts: Vec<i64>,
    action: BTreeMap<&'static str, u8>,
}

fn poll_now<F: Future>(f: F) -> Poll<F::Output> {
    let mut f = Box::pin(f);
    let waker = Waker::noop();
    let mut cx = Context::from_waker(waker);
    f.as_mut().poll(&mut cx)
}

fn status_of(st: ProcessState) -> String {
    match st {
        ProcessState::Running => "running".into(),
        ProcessState::Halted(r) => match r {
            ProcessResult::Stopped(_) => "stopped".into(),
            ProcessResult::Exited(s) => format!("exited:{}", s.0),
            ProcessResult::Signaled { signal, .. } => format!("signaled:{}", signal.as_raw()),
        },
    }
}

/// Runs one history; returns (violation class, detail) or None.
pub fn run(h: &KHist, reach: &mut BTreeMap<&'static str, u64>) -> Option<(String, String)> {
    yash_env::system::r#virtual::sim_hook::install(None);
    let root = VirtualSystem::new();
    let state = Rc::clone(&root.state);
    let sys_of = |pid: Pid| VirtualSystem {
        state: Rc::clone(&state),
        process_id: pid,
    };
    // (the first process starts in group 1, and `kill(-1, ...)` means every
    // process: it gets a group of its own first)
    if root.setpgid(Pid(0), Pid(0)).is_err() {
        return Some(("setpgid-result".into(), "the first process cannot make a group of its own".into()));
    }
    let root_pgid = state.borrow().processes[&root.process_id].pgid();
    let mut procs: Vec<MProc> = vec![MProc {
        pid: root.process_id,
        pgid: root_pgid,
        parent: None,
        st: St::Running,
        unreported: false,
        blocked: BTreeSet::new(),
        pending: BTreeSet::new(),
        alts: Vec::new(),
        action: BTreeMap::new(),
    }];
    // every process catches SIGCHLD (the disposition is inherited by fork):
    // each state change of a child must produce one
    if root.sigaction(SIGCHLD, Disposition::Catch).is_err() {
        return Some(("sigaction".into(), "cannot catch SIGCHLD".into()));
    }
    // model: SIGCHLD held back because the parent is stopped
    let mut chld_held: Vec<bool> = vec![false];
    let mut next_pid = root.process_id.0 + 100;
    let term = SIGTERM.as_raw() as i64;
    let kill = SIGKILL.as_raw() as i64;

    macro_rules! fail {
        ($class:expr, $($arg:tt)*) => {
            return Some(($class.to_string(), format!($($arg)*)))
        };
    }

    // model: deliver signal `name` to process k (it is not blocked, not held back)
    fn deliver(procs: &mut [MProc], k: usize, name: &'static str, term: i64) {
        let act = procs[k].action.get(name).copied().unwrap_or(0);
        match (name, act) {
            ("TERM", 0) | ("USR1", 0) => {
                let n = if name == "TERM" { term } else { yash_env::system::r#virtual::SIGUSR1.as_raw() as i64 };
                procs[k].st = St::Zombie(384 + n);
                procs[k].unreported = false;
                procs[k].pending.clear();
            }
            _ => {} // ignored or caught: no state change
        }
    }

    // model: signal `sig` reaches process t (which exists and has not terminated)
    fn hit(procs: &mut Vec<MProc>, t: usize, sig: Sig, reach: &mut BTreeMap<&'static str, u64>, term: i64, kill: i64) {
            match sig {
                Sig::Null => {}
                Sig::Kill => {
                    procs[t].st = St::Zombie(384 + kill);
                    procs[t].unreported = false;
                    procs[t].pending.clear();
                }
                // (a stop signal that reaches a stopped process is held back and then
            // discarded by SIGCONT: it never has an effect)
            Sig::Stop | Sig::Tstp => {
                    if procs[t].st == St::Running {
                        procs[t].st = St::Stopped;
                        procs[t].unreported = true;
                    }
                }
                Sig::Cont => {
                    if procs[t].st == St::Stopped {
                        procs[t].st = St::Running;
                        procs[t].unreported = true;
                        *reach.entry("stopped process continued").or_insert(0) += 1;
                        // what arrived while stopped is delivered now
                        let usr1 = SIGUSR1.as_raw() as i64;
                        let deliverable: Vec<&'static str> = ["TERM", "USR1"]
                            .into_iter()
                            .filter(|name| procs[t].pending.contains(name) && !procs[t].blocked.contains(name))
                            .collect();
                        let fatal: Vec<i64> = deliverable
                            .iter()
                            .filter(|name| procs[t].action.get(*name).copied().unwrap_or(0) == 0)
                            .map(|name| 384 + if *name == "TERM" { term } else { usr1 })
                            .collect();
                        for name in deliverable {
                            if procs[t].st == St::Running {
                                procs[t].pending.remove(name);
                                deliver(procs, t, name, term);
                            }
                        }
                        if fatal.len() > 1 {
                            procs[t].alts = fatal;
                        }
                    }
                }
                Sig::Term | Sig::Usr1 => {
                    let name = if sig == Sig::Term { "TERM" } else { "USR1" };
                    let ignored = procs[t].action.get(name).copied().unwrap_or(0) == 1;
                    if procs[t].blocked.contains(name) {
                        procs[t].pending.insert(name);
                    } else if procs[t].st == St::Stopped {
                        // held back until SIGCONT (an ignored signal may
                        // be discarded at once or then)
                        if !ignored {
                            procs[t].pending.insert(name);
                            *reach.entry("signal sent to a stopped process").or_insert(0) += 1;
                        }
                    } else {
                        deliver(procs, t, name, term);
                    }
                }
            }
    }

    for (i, op) in h.ops.iter().enumerate() {
        let before: Vec<St> = procs.iter().map(|m| m.st).collect();
        // (slots are taken modulo the number of processes that exist)
        let live = |procs: &Vec<MProc>, s: u8| -> Option<usize> { Some(s as usize % procs.len()) };
        match op {
            KOp::Fork(p) => {
                let Some(k) = live(&procs, *p) else { continue };
                if procs[k].st != St::Running || procs.len() >= 6 {
                    continue;
                }
                let pid = Pid(next_pid);
                next_pid += 1;
                {
                    let mut st = state.borrow_mut();
                    let child = Process::fork_from(procs[k].pid, st.processes.get(&procs[k].pid).unwrap());
                    st.processes.insert(pid, child);
                }
                let mut child = procs[k].clone();
                child.pid = pid;
                child.parent = Some(k);
                child.pending.clear();
                child.unreported = false;
                procs.push(child);
                chld_held.push(false);
            }
            KOp::Exit(p, status) => {
                let Some(k) = live(&procs, *p) else { continue };
                if procs[k].st != St::Running {
                    continue;
                }
                let _ = poll_now(sys_of(procs[k].pid).exit(ExitStatus(*status as i32)));
                procs[k].st = St::Zombie(*status as i64);
                procs[k].unreported = false;
                procs[k].pending.clear();
            }
            KOp::Kill(from, to, sig) => {
                let (Some(f), Some(t)) = (live(&procs, *from), live(&procs, *to)) else { continue };
                if procs[f].st != St::Running {
                    continue;
                }
                let number = match sig {
                    Sig::Term => Some(SIGTERM),
                    Sig::Kill => Some(SIGKILL),
                    Sig::Stop => Some(SIGSTOP),
                    Sig::Cont => Some(SIGCONT),
                    Sig::Usr1 => Some(SIGUSR1),
                    Sig::Null => None,
                    Sig::Tstp => Some(SIGTSTP),
                };
                let got = poll_now(sys_of(procs[f].pid).kill(procs[t].pid, number));
                // model
                let want: Result<(), Errno> = if procs[t].st == St::Reaped { Err(Errno::ESRCH) } else { Ok(()) };
                if want.is_ok() && !matches!(procs[t].st, St::Zombie(_)) {
                    hit(&mut procs, t, *sig, reach, term, kill);
                }
                // the sender may have stopped or killed itself: then the call
                // does not return
                let self_hit = f == t && procs[f].st != St::Running;
                match got {
                    Poll::Ready(r) => {
                        if r != want {
                            fail!("kill-result", "op #{i} {op:?}: kill returned {r:?}, the model says {want:?} (target is {:?})", procs[t].st);
                        }
                        if self_hit {
                            fail!("kill-result", "op #{i} {op:?}: kill returned although the sender stopped or terminated itself");
                        }
                    }
                    Poll::Pending => {
                        if !self_hit {
                            fail!("kill-result", "op #{i} {op:?}: kill does not return although the sender is still running");
                        }
                    }
                }
            }
            KOp::Block(p, is_term, on) => {
                let Some(k) = live(&procs, *p) else { continue };
                if procs[k].st != St::Running {
                    continue;
                }
                let (name, number) = if *is_term { ("TERM", SIGTERM) } else { ("USR1", SIGUSR1) };
                let how = if *on { SigmaskOp::Add } else { SigmaskOp::Remove };
                let sys = sys_of(procs[k].pid);
                let set = yash_env::system::r#virtual::sigset::Sigset::from(number);
                let _ = poll_now(sys.sigmask(Some((how, &set)), None));
                if *on {
                    procs[k].blocked.insert(name);
                } else {
                    procs[k].blocked.remove(name);
                    if procs[k].pending.remove(name) {
                        *reach.entry("pending signal delivered on unblock").or_insert(0) += 1;
                        deliver(&mut procs, k, name, term);
                    }
                }
            }
            KOp::Action(p, is_term, act) => {
                let Some(k) = live(&procs, *p) else { continue };
                if procs[k].st != St::Running {
                    continue;
                }
                let (name, number) = if *is_term { ("TERM", SIGTERM) } else { ("USR1", SIGUSR1) };
                let d = match act {
                    0 => Disposition::Default,
                    1 => Disposition::Ignore,
                    _ => Disposition::Catch,
                };
                if sys_of(procs[k].pid).sigaction(number, d).is_err() {
                    fail!("sigaction", "op #{i} {op:?}: sigaction failed");
                }
                procs[k].action.insert(name, *act);
                if *act == 1 {
                    // setting a signal to be ignored discards a pending instance
                    // (POSIX, sigaction: "whether or not it is blocked")
                    procs[k].pending.remove(name);
                }
            }
            KOp::SetPgid(p, t, g) => {
                let (Some(k), Some(t)) = (live(&procs, *p), live(&procs, *t)) else { continue };
                // (a target that has terminated is left out: what setpgid says
                // about a zombie differs between kernels)
                if procs[k].st != St::Running || !matches!(procs[t].st, St::Running | St::Stopped) {
                    continue;
                }
                let new = if *g == 255 { procs[t].pid } else { procs[*g as usize % procs.len()].pid };
                let arg = if *g == 255 { Pid(0) } else { new };
                let got = sys_of(procs[k].pid).setpgid(procs[t].pid, arg);
                let related = t == k || procs[t].parent == Some(k);
                // a group exists as long as it has a member that has not been reaped
                let group_exists = new == procs[t].pid || procs.iter().any(|m| m.pgid == new && m.st != St::Reaped);
                let ok = match (related, group_exists) {
                    (true, true) => got == Ok(()),
                    (false, true) => got == Err(Errno::ESRCH),
                    (true, false) => got == Err(Errno::EPERM),
                    // (both wrong: which error comes first is not specified)
                    (false, false) => matches!(got, Err(Errno::ESRCH | Errno::EPERM)),
                };
                if !ok {
                    fail!(
                        "setpgid-result",
                        "op #{i} {op:?}: setpgid({}, {}) by {} returned {got:?}; the target {} a child of the caller or the caller itself, the group {}",
                        procs[t].pid,
                        arg,
                        procs[k].pid,
                        if related { "is" } else { "is not" },
                        if group_exists { "exists" } else { "does not exist (no member that has not been reaped)" }
                    );
                }
                if got.is_ok() {
                    procs[t].pgid = new;
                    *reach.entry("process moved to another group").or_insert(0) += 1;
                }
            }
            KOp::KillGroup(from, g, sig) => {
                let Some(f) = live(&procs, *from) else { continue };
                if procs[f].st != St::Running {
                    continue;
                }
                let group = if *g == 255 { procs[f].pgid } else { procs[*g as usize % procs.len()].pgid };
                let target = if *g == 255 { Pid(0) } else { Pid(-group.0) };
                let number = match sig {
                    Sig::Term => Some(SIGTERM),
                    Sig::Kill => Some(SIGKILL),
                    Sig::Stop => Some(SIGSTOP),
                    Sig::Cont => Some(SIGCONT),
                    Sig::Usr1 => Some(SIGUSR1),
                    Sig::Null => None,
                    Sig::Tstp => Some(SIGTSTP),
                };
                let got = poll_now(sys_of(procs[f].pid).kill(target, number));
                // a reaped process no longer exists; a zombie does but is not affected
                let members: Vec<usize> = (0..procs.len()).filter(|j| procs[*j].pgid == group && procs[*j].st != St::Reaped).collect();
                let want: Result<(), Errno> = if members.is_empty() { Err(Errno::ESRCH) } else { Ok(()) };
                if members.len() > 1 {
                    *reach.entry("signal sent to a group of several processes").or_insert(0) += 1;
                }
                for t in &members {
                    if !matches!(procs[*t].st, St::Zombie(_)) {
                        hit(&mut procs, *t, *sig, reach, term, kill);
                    }
                }
                let self_hit = members.contains(&f) && procs[f].st != St::Running;
                match got {
                    Poll::Ready(r) => {
                        if r != want {
                            fail!("kill-result", "op #{i} {op:?}: kill({target}) returned {r:?}, the model says {want:?} (members of group {group} that have not been reaped: {:?})", members.iter().map(|j| procs[*j].pid.0).collect::<Vec<_>>());
                        }
                        if self_hit {
                            fail!("kill-result", "op #{i} {op:?}: kill returned although the sender stopped or terminated itself");
                        }
                    }
                    Poll::Pending => {
                        if !self_hit {
                            fail!("kill-result", "op #{i} {op:?}: kill does not return although the sender is still running");
                        }
                    }
                }
            }
            KOp::Wait(p, c) => {
                let Some(k) = live(&procs, *p) else { continue };
                if procs[k].st != St::Running {
                    continue;
                }
                let target_slot = if *c == 255 { None } else { live(&procs, *c) };
                if *c != 255 && target_slot.is_none() {
                    continue;
                }
                let target = target_slot.map_or(Pid(-1), |t| procs[t].pid);
                let got = sys_of(procs[k].pid).wait(target);
                // model: children of k that match
                let matching: Vec<usize> = (0..procs.len())
                    .filter(|j| procs[*j].parent == Some(k) && target_slot.is_none_or(|t| t == *j))
                    .collect();
                let reportable = |m: &MProc| matches!(m.st, St::Zombie(_)) || m.unreported;
                let waitable: Vec<usize> = matching.iter().copied().filter(|j| procs[*j].st != St::Reaped).collect();
                match got {
                    Ok(Some((pid, st))) => {
                        let Some(j) = matching.iter().copied().find(|j| procs[*j].pid == pid) else {
                            fail!("wait-result", "op #{i} {op:?}: wait returned process {pid} which is not a matching child");
                        };
                        if !reportable(&procs[j]) {
                            fail!("wait-result", "op #{i} {op:?}: wait reported {} for child {pid} whose state ({:?}) has not changed since the last report", status_of(st), procs[j].st);
                        }
                        let want = match procs[j].st {
                            St::Zombie(s) if s >= 384 => format!("signaled:{}", s - 384),
                            St::Zombie(s) => format!("exited:{s}"),
                            St::Stopped => "stopped".into(),
                            St::Running => "running".into(),
                            St::Reaped => unreachable!(),
                        };
                        if status_of(st) != want {
                            fail!("wait-status", "op #{i} {op:?}: wait reported {} for child {pid}, the model says {want}", status_of(st));
                        }
                        if matches!(procs[j].st, St::Zombie(_)) {
                            procs[j].st = St::Reaped;
                            *reach.entry("child reaped").or_insert(0) += 1;
                        }
                        procs[j].unreported = false;
                    }
                    Ok(None) => {
                        if let Some(j) = waitable.iter().copied().find(|j| reportable(&procs[*j])) {
                            fail!(
                                "wait-result",
                                "op #{i} {op:?}: wait found nothing although child {} has an unreported state {:?}",
                                procs[j].pid,
                                procs[j].st
                            );
                        }
                        if waitable.is_empty() {
                            fail!("wait-result", "op #{i} {op:?}: wait returned None although there is no child left to wait for (ECHILD expected)");
                        }
                    }
                    Err(e) => {
                        if e != Errno::ECHILD || !waitable.is_empty() {
                            fail!(
                                "wait-result",
                                "op #{i} {op:?}: wait failed with {e:?} although children {:?} can still be waited for",
                                waitable.iter().map(|j| (procs[*j].pid.0, procs[*j].st)).collect::<Vec<_>>()
                            );
                        }
                    }
                }
            }
        }
        // SIGCHLD: one per state change of a child, to a parent that can take it
        let mut expected: Vec<u32> = vec![0; procs.len()];
        for (j, m) in procs.iter().enumerate() {
            let was = before.get(j).copied();
            let changed = match (was, m.st) {
                (None, _) => false,
                (Some(a), b) if a == b => false,
                // (reaping is not a state change of the child)
                (Some(St::Zombie(_)), St::Reaped) => false,
                _ => true,
            };
            if changed && let Some(p) = m.parent {
                match procs[p].st {
                    St::Running => expected[p] += 1,
                    St::Stopped => chld_held[p] = true,
                    _ => {}
                }
            }
        }
        for (k, m) in procs.iter().enumerate() {
            // a parent that has just been continued gets the SIGCHLD held back
            if before.get(k) == Some(&St::Stopped) && m.st == St::Running && std::mem::take(&mut chld_held[k]) {
                expected[k] += 1;
            }
            if m.st != St::Running {
                continue;
            }
            let got = sys_of(m.pid).caught_signals().into_iter().filter(|s| *s == SIGCHLD).count() as u32;
            // a continued parent whose own pending signals killed it is not Running; several
            // changes while it was stopped coalesce into one
            // (several children changing state in one step - a signal sent to a
            // group - may be notified by one SIGCHLD or by one each)
            let coalesced = expected[k] > 1 && (1..=expected[k]).contains(&got);
            if got != expected[k] && !coalesced {
                fail!(
                    "sigchld",
                    "after op #{i} {op:?}: process {} received {got} SIGCHLD, the model says {} (state changes of its children in this step)",
                    m.pid,
                    expected[k]
                );
            }
        }
        // after every operation: the kernel's view of every process
        let mut fix: Vec<(Pid, i64)> = Vec::new();
        let st = state.borrow();
        for m in &procs {
            let Some(p) = st.processes.get(&m.pid) else {
                fail!("process-table", "after op #{i} {op:?}: process {} vanished from the table", m.pid);
            };
            if m.st != St::Reaped && p.pgid() != m.pgid {
                fail!("process-group", "after op #{i} {op:?}: process {} is in group {}, the model says {}", m.pid, p.pgid(), m.pgid);
            }
            let got = status_of(p.state());
            let want = match m.st {
                St::Running => "running".to_string(),
                St::Stopped => "stopped".to_string(),
                St::Zombie(s) if s >= 384 => format!("signaled:{}", s - 384),
                St::Zombie(s) => format!("exited:{s}"),
                St::Reaped => continue,
            };
            if got != want {
                let alt = m.alts.iter().find(|s| format!("signaled:{}", **s - 384) == got).copied();
                match alt {
                    Some(s) => fix.push((m.pid, s)),
                    None => fail!("process-state", "after op #{i} {op:?}: process {} is {got}, the model says {want}", m.pid),
                }
            }
        }
        drop(st);
        for (pid, status) in fix {
            if let Some(m) = procs.iter_mut().find(|m| m.pid == pid) {
                m.st = St::Zombie(status);
                m.alts.clear();
            }
        }
    }
    None
}

pub fn shrink(h: &KHist) -> Vec<KHist> {
    let mut out = Vec::new();
    for i in 0..h.ops.len() {
        let mut ops = h.ops.clone();
        ops.remove(i);
        out.push(KHist { ops });
    }
    out
}
