//! C15 - the single-threaded executor never loses a wake-up, never polls a
//! finished task, queues a task at most once, is FIFO-fair and delivers each
//! spawned task's result exactly once.
//!
//! The simulated system is `yash_executor::Executor` itself. Instrumented
//! futures run seeded scripts; the driver calls `step()` one at a time and
//! performs seeded external events between steps (what wakers held by an I/O
//! source do). A reference model (FIFO queue with duplicate suppression) is
//! stepped in lock-step and predicts every poll.

use crate::harness::{Failure, Prop, Stats, Tier};
use crate::rng::{Decider, Decision, Rng, fnv1a, fnv_combine, tag};
use crate::sim::SimConfig;
use serde::{Deserialize, Serialize};
use serde_json::{Value, json};
use std::cell::{Cell, RefCell};
use std::collections::VecDeque;
use std::future::Future;
use std::pin::Pin;
use std::rc::Rc;
use std::task::{Context, Poll, Waker};
use yash_executor::forwarder::{Receiver, TryReceiveError};
use yash_executor::{Executor, Spawner};

#[derive(Clone, Debug, Serialize, Deserialize, PartialEq)]
pub enum Act {
    /// wake the own waker `times` times (by reference or by value), then pend
    YieldSelf { by_ref: bool, times: u8 },
    /// park a clone of the waker in channel `ch`, then pend
    Park(u8),
    /// park in two channels at once, then pend
    Park2(u8, u8),
    /// wake (and remove) every waker parked in `ch`
    Signal(u8),
    /// wake every waker parked in `ch` by reference, leaving them parked
    Poke(u8),
    /// spawn a child through the Spawner: 0 await it later, 1 drop the
    /// receiver, 2 keep the receiver in the driver's table
    Spawn { script: Vec<Act>, recv: u8 },
    /// await the most recently spawned, still unawaited child
    AwaitChild,
}

#[derive(Clone, Debug, Serialize, Deserialize)]
pub struct Case {
    pub roots: Vec<Vec<Act>>,
    pub channels: u8,
    /// permille of an external event before each step
    pub ext_rate: u32,
    /// tear down by dropping the executor while tasks are still parked
    pub abrupt: bool,
    pub use_run_until_stalled: bool,
}

fn gen_script(rng: &mut Rng, depth: u32, channels: u8, max_len: u32) -> Vec<Act> {
    let len = rng.range(0, max_len);
    let mut out = Vec::new();
    let mut pending_child = false;
    for _ in 0..len {
        match rng.below(20) {
            0..=3 => out.push(Act::YieldSelf {
                by_ref: rng.bool(),
                times: rng.range(1, 2) as u8,
            }),
            4..=8 => out.push(Act::Park(rng.below(channels as u32) as u8)),
            9 => out.push(Act::Park2(
                rng.below(channels as u32) as u8,
                rng.below(channels as u32) as u8,
            )),
            10..=13 => out.push(Act::Signal(rng.below(channels as u32) as u8)),
            14..=15 => out.push(Act::Poke(rng.below(channels as u32) as u8)),
            16..=18 if depth < 2 => {
                let recv = rng.below(3) as u8;
                out.push(Act::Spawn {
                    script: gen_script(rng, depth + 1, channels, max_len.min(4)),
                    recv,
                });
                if recv == 0 {
                    pending_child = true;
                }
            }
            _ if pending_child => {
                out.push(Act::AwaitChild);
                pending_child = false;
            }
            _ => out.push(Act::Signal(rng.below(channels as u32) as u8)),
        }
    }
    out
}

pub fn generate(rng: &mut Rng, tier: Tier) -> Case {
    let (max_tasks, max_len) = match tier {
        Tier::Quick => (5, 6),
        Tier::Thorough => (10, 7),
    };
    let channels = rng.range(1, 3) as u8;
    let n = rng.range(1, max_tasks);
    Case {
        roots: (0..n).map(|_| gen_script(rng, 0, channels, max_len)).collect(),
        channels,
        ext_rate: *rng.pick(&[0u32, 100, 300, 600]),
        abrupt: rng.below(3) == 0,
        use_run_until_stalled: rng.below(4) == 0,
    }
}

// -------------------------------------------------------------- real execution

struct Shared {
    /// (channel) -> parked (task id, waker)
    channels: RefCell<Vec<Vec<(u32, Waker)>>>,
    /// poll log: task ids in the order their futures were polled
    log: RefCell<Vec<u32>>,
    /// per task: number of times the future was dropped / completed
    drops: RefCell<Vec<u32>>,
    done: RefCell<Vec<bool>>,
    in_poll: Cell<Option<u32>>,
    errors: RefCell<Vec<String>>,
    next_id: Cell<u32>,
    spawner: RefCell<Option<Spawner<'static>>>,
    /// receivers kept by the driver: (child id, receiver)
    kept: RefCell<Vec<(u32, Option<Receiver<u32>>)>>,
    /// results observed through receivers: (child id, how, value)
    received: RefCell<Vec<(u32, &'static str, u32)>>,
}

impl Shared {
    fn new_id(&self) -> u32 {
        let id = self.next_id.get();
        self.next_id.set(id + 1);
        self.drops.borrow_mut().push(0);
        self.done.borrow_mut().push(false);
        id
    }
    fn err(&self, msg: String) {
        self.errors.borrow_mut().push(msg);
    }
}

struct Scripted {
    id: u32,
    script: Vec<Act>,
    pc: usize,
    /// receiver of the child to be awaited
    child: Option<(u32, Receiver<u32>)>,
    awaiting: bool,
    finished: bool,
    sh: Rc<Shared>,
}

impl Drop for Scripted {
    fn drop(&mut self) {
        self.sh.drops.borrow_mut()[self.id as usize] += 1;
    }
}

impl Future for Scripted {
    type Output = u32;
    fn poll(mut self: Pin<&mut Self>, cx: &mut Context<'_>) -> Poll<u32> {
        let sh = Rc::clone(&self.sh);
        let id = self.id;
        if self.finished {
            sh.err(format!("task {id} polled after it returned Ready"));
            return Poll::Ready(id);
        }
        if let Some(other) = sh.in_poll.get() {
            sh.err(format!("task {id} polled while task {other} is being polled (re-entrant poll)"));
        }
        sh.in_poll.set(Some(id));
        sh.log.borrow_mut().push(id);
        let result = loop {
            if self.awaiting {
                let (cid, rx) = self.child.as_mut().unwrap();
                let cid = *cid;
                match Pin::new(rx).poll(cx) {
                    Poll::Pending => break Poll::Pending,
                    Poll::Ready(v) => {
                        sh.received.borrow_mut().push((cid, "await", v));
                        self.awaiting = false;
                        self.child = None;
                    }
                }
                continue;
            }
            if self.pc >= self.script.len() {
                // an unawaited child receiver is dropped with the future
                break Poll::Ready(id);
            }
            let act = self.script[self.pc].clone();
            self.pc += 1;
            match act {
                Act::YieldSelf { by_ref, times } => {
                    for _ in 0..times {
                        if by_ref {
                            cx.waker().wake_by_ref();
                        } else {
                            cx.waker().clone().wake();
                        }
                    }
                    break Poll::Pending;
                }
                Act::Park(ch) => {
                    sh.channels.borrow_mut()[ch as usize].push((id, cx.waker().clone()));
                    break Poll::Pending;
                }
                Act::Park2(a, b) => {
                    sh.channels.borrow_mut()[a as usize].push((id, cx.waker().clone()));
                    sh.channels.borrow_mut()[b as usize].push((id, cx.waker().clone()));
                    break Poll::Pending;
                }
                Act::Signal(ch) => {
                    let parked = std::mem::take(&mut sh.channels.borrow_mut()[ch as usize]);
                    for (_, w) in parked {
                        w.wake();
                    }
                }
                Act::Poke(ch) => {
                    let wakers: Vec<Waker> = sh.channels.borrow()[ch as usize]
                        .iter()
                        .map(|(_, w)| w.clone())
                        .collect();
                    for w in wakers {
                        w.wake_by_ref();
                    }
                }
                Act::Spawn { script, recv } => {
                    let cid = sh.new_id();
                    let child = Scripted {
                        id: cid,
                        script,
                        pc: 0,
                        child: None,
                        awaiting: false,
                        finished: false,
                        sh: Rc::clone(&sh),
                    };
                    let spawner = sh.spawner.borrow().clone().unwrap();
                    // SAFETY: everything runs on this one thread
                    match unsafe { spawner.spawn(child) } {
                        Ok(rx) => match recv {
                            0 => self.child = Some((cid, rx)),
                            1 => drop(rx),
                            _ => sh.kept.borrow_mut().push((cid, Some(rx))),
                        },
                        Err(_) => sh.err(format!("spawn of task {cid} failed although the executor is alive")),
                    }
                }
                Act::AwaitChild => {
                    if self.child.is_some() {
                        self.awaiting = true;
                    }
                }
            }
        };
        if result.is_ready() {
            self.finished = true;
            sh.done.borrow_mut()[id as usize] = true;
        }
        sh.in_poll.set(None);
        result
    }
}

// ----------------------------------------------------------------------- model

#[derive(Clone, Debug, Default)]
struct MTask {
    script: Vec<Act>,
    pc: usize,
    /// child to await (id)
    child: Option<u32>,
    awaiting: bool,
    done: bool,
    /// value computed by this task has been sent and nobody took it yet
    value_ready: bool,
    /// receiver: 0 held by parent future, 1 dropped, 2 kept by the driver, 3 root (executor.spawn, driver keeps)
    recv: u8,
    /// the task awaiting this one's value, registered in the relay
    waiter: Option<u32>,
    taken: bool,
}

#[derive(Clone, Debug, Default)]
struct Model {
    tasks: Vec<MTask>,
    queue: VecDeque<u32>,
    channels: Vec<Vec<u32>>,
    log: Vec<u32>,
    received: Vec<(u32, &'static str, u32)>,
}

impl Model {
    fn wake(&mut self, t: u32) {
        if !self.queue.contains(&t) {
            self.queue.push_back(t);
        }
    }

    fn spawn(&mut self, script: Vec<Act>, recv: u8) -> u32 {
        let id = self.tasks.len() as u32;
        self.tasks.push(MTask {
            script,
            recv,
            ..Default::default()
        });
        self.queue.push_back(id);
        id
    }

    /// One executor step. Returns None if the queue is empty, else whether the
    /// polled task is complete.
    fn step(&mut self) -> Option<bool> {
        let t = self.queue.pop_front()?;
        if self.tasks[t as usize].done {
            // a finished task woken again: the executor finds an empty slot
            return Some(true);
        }
        self.log.push(t);
        let ready = loop {
            let task = &mut self.tasks[t as usize];
            if task.awaiting {
                let c = task.child.unwrap();
                if self.tasks[c as usize].value_ready {
                    self.tasks[c as usize].value_ready = false;
                    self.tasks[c as usize].taken = true;
                    self.tasks[c as usize].waiter = None;
                    self.received.push((c, "await", c));
                    let task = &mut self.tasks[t as usize];
                    task.awaiting = false;
                    task.child = None;
                    continue;
                } else {
                    self.tasks[c as usize].waiter = Some(t);
                    break false;
                }
            }
            if task.pc >= task.script.len() {
                break true;
            }
            let act = task.script[task.pc].clone();
            task.pc += 1;
            match act {
                Act::YieldSelf { .. } => {
                    self.wake(t);
                    break false;
                }
                Act::Park(ch) => {
                    self.channels[ch as usize].push(t);
                    break false;
                }
                Act::Park2(a, b) => {
                    self.channels[a as usize].push(t);
                    self.channels[b as usize].push(t);
                    break false;
                }
                Act::Signal(ch) => {
                    let parked = std::mem::take(&mut self.channels[ch as usize]);
                    for p in parked {
                        self.wake(p);
                    }
                }
                Act::Poke(ch) => {
                    let parked = self.channels[ch as usize].clone();
                    for p in parked {
                        self.wake(p);
                    }
                }
                Act::Spawn { script, recv } => {
                    let c = self.spawn(script, recv);
                    if recv == 0 {
                        // a receiver still held from an earlier spawn is dropped
                        if let Some(old) = self.tasks[t as usize].child.replace(c) {
                            self.tasks[old as usize].recv = 1;
                            self.tasks[old as usize].value_ready = false;
                        }
                    }
                }
                Act::AwaitChild => {
                    if self.tasks[t as usize].child.is_some() {
                        self.tasks[t as usize].awaiting = true;
                    }
                }
            }
        };
        if ready {
            self.complete(t);
        }
        Some(ready)
    }

    fn complete(&mut self, t: u32) {
        let task = &mut self.tasks[t as usize];
        task.done = true;
        // an unawaited child receiver held by this future is dropped now
        if let Some(c) = task.child.take() {
            self.tasks[c as usize].recv = 1;
            self.tasks[c as usize].value_ready = false;
        }
        let task = &mut self.tasks[t as usize];
        match task.recv {
            1 => {}
            _ => {
                task.value_ready = true;
                if let Some(w) = task.waiter.take() {
                    self.wake(w);
                }
            }
        }
    }
}

// ---------------------------------------------------------------------- driver

#[derive(Clone, Debug, Default)]
pub struct Outcome {
    pub violation: Option<(String, String)>,
    pub steps: u64,
    pub polls: u64,
    pub ext_events: u64,
    pub tasks: u32,
    pub log_hash: u64,
    pub panic: Option<String>,
    pub decisions: Vec<Decision>,
}

fn external_event(
    d: &mut Decider,
    sh: &Rc<Shared>,
    model: &mut Model,
    exec: &Executor<'static>,
    channels: u8,
) -> &'static str {
    match d.choose(tag::ENV, 7) {
        0 | 1 => {
            let ch = d.choose(tag::ENV, channels as u32) as usize;
            let parked = std::mem::take(&mut sh.channels.borrow_mut()[ch]);
            for (_, w) in parked {
                w.wake();
            }
            let m = std::mem::take(&mut model.channels[ch]);
            for p in m {
                model.wake(p);
            }
            "ext_signal"
        }
        2 => {
            let ch = d.choose(tag::ENV, channels as u32) as usize;
            let wakers: Vec<Waker> = sh.channels.borrow()[ch].iter().map(|(_, w)| w.clone()).collect();
            for w in &wakers {
                w.wake_by_ref();
                w.wake_by_ref();
            }
            drop(wakers);
            for p in model.channels[ch].clone() {
                model.wake(p);
            }
            "ext_poke_twice"
        }
        3 => {
            // clone and drop wakers (reference counting only)
            let ch = d.choose(tag::ENV, channels as u32) as usize;
            let clones: Vec<Waker> = sh.channels.borrow()[ch].iter().map(|(_, w)| w.clone()).collect();
            let again: Vec<Waker> = clones.iter().cloned().collect();
            drop(clones);
            drop(again);
            "ext_clone_drop"
        }
        4 => {
            // try_receive on a kept receiver
            let n = sh.kept.borrow().len();
            if n == 0 {
                return "ext_none";
            }
            let k = d.choose(tag::ENV, n as u32) as usize;
            let (cid, res) = {
                let kept = sh.kept.borrow();
                let (cid, rx) = &kept[k];
                (*cid, rx.as_ref().map(|r| r.try_receive()))
            };
            let Some(res) = res else {
                return "ext_none";
            };
            let mt = &mut model.tasks[cid as usize];
            let want: Result<u32, TryReceiveError> = if mt.value_ready {
                mt.value_ready = false;
                mt.taken = true;
                Ok(cid)
            } else if mt.taken {
                Err(TryReceiveError::AlreadyReceived)
            } else {
                Err(TryReceiveError::NotSent)
            };
            if let Ok(v) = res {
                sh.received.borrow_mut().push((cid, "try", v));
                model.received.push((cid, "try", cid));
            }
            if res != want {
                sh.err(format!("try_receive for task {cid} returned {res:?}, model says {want:?}"));
            }
            "ext_try_receive"
        }
        5 => {
            // drop a kept receiver before (or after) its task finished
            let n = sh.kept.borrow().len();
            if n == 0 {
                return "ext_none";
            }
            let k = d.choose(tag::ENV, n as u32) as usize;
            let cid = {
                let mut kept = sh.kept.borrow_mut();
                kept[k].1 = None;
                kept[k].0
            };
            let mt = &mut model.tasks[cid as usize];
            mt.recv = 1;
            mt.value_ready = false;
            "ext_drop_receiver"
        }
        _ => {
            // spawn one more root task from outside
            let script = vec![Act::Park(0), Act::Signal(0)];
            let id = sh.new_id();
            let fut = Scripted {
                id,
                script: script.clone(),
                pc: 0,
                child: None,
                awaiting: false,
                finished: false,
                sh: Rc::clone(sh),
            };
            // SAFETY: single thread
            let rx = unsafe { exec.spawn(fut) };
            sh.kept.borrow_mut().push((id, Some(rx)));
            let mid = model.spawn(script, 2);
            debug_assert_eq!(mid, id);
            "ext_spawn"
        }
    }
}

pub fn execute(case: &Case, decider: Decider) -> Outcome {
    let mut d = decider;
    let sh = Rc::new(Shared {
        channels: RefCell::new(vec![Vec::new(); case.channels as usize]),
        log: RefCell::new(Vec::new()),
        drops: RefCell::new(Vec::new()),
        done: RefCell::new(Vec::new()),
        in_poll: Cell::new(None),
        errors: RefCell::new(Vec::new()),
        next_id: Cell::new(0),
        spawner: RefCell::new(None),
        kept: RefCell::new(Vec::new()),
        received: RefCell::new(Vec::new()),
    });
    let mut model = Model {
        channels: vec![Vec::new(); case.channels as usize],
        ..Default::default()
    };
    let mut out = Outcome::default();
    let mut counters: Vec<&'static str> = Vec::new();
    let result = crate::sim::catch(|| {
        let exec: Executor<'static> = Executor::new();
        *sh.spawner.borrow_mut() = Some(exec.spawner());
        for script in &case.roots {
            let id = sh.new_id();
            let fut = Scripted {
                id,
                script: script.clone(),
                pc: 0,
                child: None,
                awaiting: false,
                finished: false,
                sh: Rc::clone(&sh),
            };
            // SAFETY: single thread
            let rx = unsafe { exec.spawn(fut) };
            sh.kept.borrow_mut().push((id, Some(rx)));
            model.spawn(script.clone(), 2);
        }
        let mut violation: Option<(String, String)> = None;
        let check = |model: &Model, sh: &Shared, exec: &Executor<'static>, what: &str| -> Option<(String, String)> {
            if let Some(e) = sh.errors.borrow().first() {
                let class = if e.contains("after it returned Ready") {
                    "poll-after-ready"
                } else if e.contains("re-entrant") {
                    "reentrant-poll"
                } else if e.contains("try_receive") {
                    "receiver"
                } else {
                    "spawn"
                };
                return Some((class.into(), e.clone()));
            }
            let log = sh.log.borrow();
            if *log != model.log {
                let i = log.iter().zip(&model.log).position(|(a, b)| a != b).unwrap_or(log.len().min(model.log.len()));
                return Some((
                    "poll-order".into(),
                    format!(
                        "{what}: poll #{i} differs from the reference (FIFO with duplicate suppression): executor polled {:?}, model polls {:?}; executor log {:?}, model log {:?}",
                        log.get(i),
                        model.log.get(i),
                        &log[log.len().saturating_sub(12)..],
                        &model.log[model.log.len().saturating_sub(12)..]
                    ),
                ));
            }
            if exec.wake_count() != model.queue.len() {
                return Some((
                    "wake-count".into(),
                    format!("{what}: wake_count() is {} but the model's queue holds {:?}", exec.wake_count(), model.queue),
                ));
            }
            None
        };
        let budget = 4000u64;
        let mut drained_rounds = 0;
        loop {
            if out.steps > budget {
                violation = Some(("budget".into(), format!("more than {budget} steps")));
                break;
            }
            // external event?
            if d.chance(tag::ENV, case.ext_rate) {
                let name = external_event(&mut d, &sh, &mut model, &exec, case.channels);
                counters.push(name);
                out.ext_events += 1;
                if let Some(v) = check(&model, &sh, &exec, name) {
                    violation = Some(v);
                    break;
                }
            }
            if case.use_run_until_stalled && d.chance(tag::ENV, 200) {
                let completed = exec.run_until_stalled();
                let mut want = 0;
                while let Some(c) = model.step() {
                    out.steps += 1;
                    if c {
                        want += 1;
                    }
                    if out.steps > budget {
                        break;
                    }
                }
                counters.push("run_until_stalled");
                if completed != want {
                    violation = Some((
                        "step-result".into(),
                        format!("run_until_stalled returned {completed}, model says {want}"),
                    ));
                    break;
                }
                if let Some(v) = check(&model, &sh, &exec, "run_until_stalled") {
                    violation = Some(v);
                    break;
                }
                continue;
            }
            let got = exec.step();
            let want = model.step();
            out.steps += 1;
            if got != want {
                violation = Some((
                    "step-result".into(),
                    format!("step() returned {got:?}, model says {want:?} (model queue {:?})", model.queue),
                ));
                break;
            }
            if let Some(v) = check(&model, &sh, &exec, "step") {
                violation = Some(v);
                break;
            }
            if got.is_none() {
                // stalled: every unfinished task must be parked or awaiting
                if case.abrupt {
                    break;
                }
                // drain: signal every channel so that parked tasks continue
                let any_parked = sh.channels.borrow().iter().any(|c| !c.is_empty());
                if !any_parked || drained_rounds > 200 {
                    break;
                }
                drained_rounds += 1;
                for ch in 0..case.channels as usize {
                    let parked = std::mem::take(&mut sh.channels.borrow_mut()[ch]);
                    for (_, w) in parked {
                        w.wake();
                    }
                    for p in std::mem::take(&mut model.channels[ch]) {
                        model.wake(p);
                    }
                }
                counters.push("drain_signal");
            }
        }
        // results delivered exactly once
        if violation.is_none() {
            let got = sh.received.borrow().clone();
            if got != model.received {
                violation = Some((
                    "receiver".into(),
                    format!("values received {:?}, model says {:?}", got, model.received),
                ));
            }
        }
        // tear down: drop the executor (possibly with tasks still parked), then
        // fire and drop every remaining waker - must be a no-op
        let late_spawner = sh.spawner.borrow_mut().take();
        let unfinished_before: Vec<u32> = (0..model.tasks.len() as u32).filter(|t| !model.tasks[*t as usize].done).collect();
        drop(exec);
        for ch in 0..case.channels as usize {
            let parked = std::mem::take(&mut sh.channels.borrow_mut()[ch]);
            for (i, (_, w)) in parked.into_iter().enumerate() {
                if i % 2 == 0 {
                    w.wake();
                } else {
                    w.wake_by_ref();
                    drop(w);
                }
            }
        }
        // a Spawner that outlives its executor refuses to spawn and hands the
        // future back (which is then dropped exactly once, never polled)
        if let Some(sp) = late_spawner {
            let id = sh.new_id();
            model.tasks.push(MTask {
                done: true,
                ..Default::default()
            });
            let fut = Scripted {
                id,
                script: vec![Act::Signal(0)],
                pc: 0,
                child: None,
                awaiting: false,
                finished: false,
                sh: Rc::clone(&sh),
            };
            // SAFETY: single thread
            match unsafe { sp.spawn(fut) } {
                Ok(_) => {
                    if violation.is_none() {
                        violation = Some(("spawn-after-drop".into(), "Spawner::spawn succeeded after the executor was dropped".into()));
                    }
                }
                Err(e) => drop(e),
            }
        }
        let polls_after = sh.log.borrow().len();
        if violation.is_none() && polls_after != model.log.len() {
            violation = Some((
                "poll-after-drop".into(),
                "a task was polled after the executor had been dropped".into(),
            ));
        }
        sh.kept.borrow_mut().clear();
        // every future dropped exactly once; tasks still awaiting a child at
        // tear-down are kept alive by the waker stored in the relay (reference
        // cycle by design) and are exempt, as are tasks only they own
        if violation.is_none() {
            let drops = sh.drops.borrow();
            for (t, n) in drops.iter().enumerate() {
                let mt = &model.tasks[t];
                if *n > 1 {
                    violation = Some(("double-drop".into(), format!("the future of task {t} was dropped {n} times")));
                    break;
                }
                let exempt = !mt.done && mt.awaiting;
                let _ = &unfinished_before;
                if *n == 0 && !exempt {
                    violation = Some((
                        "leak".into(),
                        format!("the future of task {t} was never dropped (done={}, awaiting={})", mt.done, mt.awaiting),
                    ));
                    break;
                }
            }
        }
        violation
    });
    out.polls = sh.log.borrow().len() as u64;
    out.tasks = sh.next_id.get();
    out.log_hash = {
        let mut h = fnv1a(b"c15");
        for t in sh.log.borrow().iter() {
            h = fnv_combine(h, *t as u64);
        }
        for c in &counters {
            h = fnv_combine(h, fnv1a(c.as_bytes()));
        }
        h
    };
    match result {
        Ok(v) => out.violation = v,
        Err(p) => {
            out.panic = Some(p.clone());
            out.violation = Some(("panic".into(), p));
        }
    }
    out.decisions = d.log.clone();
    out
}

pub struct C15;

fn failure(case: &Case, o: &Outcome) -> Failure {
    let (class, detail) = o.violation.clone().unwrap();
    Failure {
        key: class.clone(),
        class,
        detail: format!("{detail}\n--- task system ---\n{}", serde_json::to_string(case).unwrap()),
        case: serde_json::to_value(case).unwrap(),
        cfg: SimConfig::default(),
        decisions: o.decisions.clone(),
        history_tail: Vec::new(),
    }
}

impl Prop for C15 {
    fn id(&self) -> &'static str {
        "C15"
    }
    fn level(&self) -> &'static str {
        "exploration"
    }
    fn rule(&self) -> String {
        "Seeded task systems on the real yash_executor::Executor: 1-10 root tasks plus spawned children (depth <= 2), each an instrumented future running a script of up to 7 actions from {self-wake by value/by reference once or twice then pend, park the waker in channel k (or in two channels) and pend, signal channel k, poke channel k by reference, spawn a child through the Spawner and await / drop / keep its Receiver}. The driver calls step() (or run_until_stalled) and, between steps, performs seeded external events: signal or double-poke a channel from outside any poll, clone and drop wakers, try_receive / drop a kept Receiver, spawn from outside; at the end it drops the executor (in a third of the cases while tasks are still parked) and fires/drops the remaining wakers. A reference model (FIFO queue with duplicate suppression, per-task script position, relay state) runs in lock-step; every poll, step() result, wake_count(), received value and try_receive result must match, no future is polled after Ready or re-entrantly, every future is dropped exactly once (tasks still awaiting a child at tear-down are exempt: reference cycle through the relay's waker, by design). A case is distinct non-trivial if it performed >= 3 polls and its (poll log, external-event sequence) hash is new.".into()
    }
    fn assumptions(&self) -> Vec<String> {
        vec![
            "the executor is single-threaded by construction; the nondeterminism explored is the order of wake-ups relative to polls and who drops what when".into(),
            "sampling, not exhaustive enumeration of all small task systems".into(),
        ]
    }
    fn components(&self) -> Value {
        json!({"real": ["yash-executor: Executor, Spawner, Task, waker vtable, forwarder Sender/Receiver"], "stub": ["instrumented futures", "channels holding wakers", "reference scheduler model"]})
    }
    fn isolate(&self) -> bool {
        true
    }
    fn cases(&self, tier: Tier) -> u64 {
        match tier {
            Tier::Quick => 2_000_000,
            Tier::Thorough => 20_000_000,
        }
    }

    fn run_case(&self, seed: u64, index: u64, tier: Tier, stats: &mut Stats) -> Option<Failure> {
        let mut rng = Rng::stream(seed, 15, index);
        let case = generate(&mut rng, tier);
        let o = execute(&case, Decider::record(Rng::stream(seed, 1500, index)));
        stats.evaluations += 1;
        stats.steps += o.steps;
        if o.polls >= 3 {
            stats.distinct.insert(o.log_hash);
            stats.interleavings.insert(o.log_hash);
        }
        stats.count("polls", o.polls);
        stats.count("external_events", o.ext_events);
        stats.count("tasks", o.tasks as u64);
        if case.abrupt {
            stats.count("teardown_with_parked_tasks", 1);
        }
        stats.digest(index, o.log_hash);
        if stats.samples.len() < 2 && o.polls > 8 && index % 1000 == 7 {
            stats.samples.push(json!({"task_system": serde_json::to_value(&case).unwrap(), "polls": o.polls, "steps": o.steps, "external_events": o.ext_events}));
        }
        o.violation.as_ref()?;
        Some(failure(&case, &o))
    }

    fn rerun(&self, case: &Value, _cfg: &SimConfig, decisions: &[Decision]) -> Option<Failure> {
        let c: Case = serde_json::from_value(case.clone()).ok()?;
        let o = execute(&c, Decider::replay(decisions));
        o.violation.as_ref()?;
        Some(failure(&c, &o))
    }

    fn shrink(&self, case: &Value) -> Vec<Value> {
        let Ok(c) = serde_json::from_value::<Case>(case.clone()) else {
            return Vec::new();
        };
        let mut out = Vec::new();
        for i in 0..c.roots.len() {
            if c.roots.len() > 1 {
                let mut n = c.clone();
                n.roots.remove(i);
                out.push(serde_json::to_value(n).unwrap());
            }
            for j in 0..c.roots[i].len() {
                let mut n = c.clone();
                n.roots[i].remove(j);
                out.push(serde_json::to_value(n).unwrap());
            }
        }
        if c.ext_rate > 0 {
            let mut n = c.clone();
            n.ext_rate = 0;
            out.push(serde_json::to_value(n).unwrap());
        }
        if c.abrupt {
            let mut n = c.clone();
            n.abrupt = false;
            out.push(serde_json::to_value(n).unwrap());
        }
        out
    }
}
