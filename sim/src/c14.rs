//! C14 - data through pipes, command substitutions and here-documents arrives
//! complete, exactly once and in order.

use crate::harness::{Failure, Prop, Stats, Tier, hash_str};
use crate::probes::{sink_summary, stream_bytes};
use crate::rng::{Decider, Decision, Rng, fnv1a, tag};
use crate::shellrun::{Observed, ScriptSpec, history_tail, obs_digest, run_script_with};
use crate::sim::{Sim, SimConfig, Strategy};
use serde::{Deserialize, Serialize};
use serde_json::{Value, json};
use yash_env::job::{Pid, ProcessState};
use yash_env::system::SendSignal as _;
use yash_env::system::r#virtual::{PIPE_BUF, PIPE_SIZE, SIGUSR1, VirtualSystem};

#[derive(Clone, Debug, Serialize, Deserialize, PartialEq)]
pub enum Mid {
    Relay(u32),
    /// `while IFS= read -r l; do echo "$l"; done` (payload must end with \n)
    ReadLoop,
    /// `{ nap MS; relay B; }`
    SlowRelay(u32, u32),
}

#[derive(Clone, Debug, Serialize, Deserialize, PartialEq)]
pub enum Form {
    Plain,
    Piped(u32),
    Nested,
    /// `$(...)` inside a pipeline stage
    InStage,
    /// the shell's standard output (1), standard input (0) or both are closed
    /// while the substitution runs: its pipe lands on the low descriptors
    Closed(u8),
}

#[derive(Clone, Debug, Serialize, Deserialize, PartialEq)]
pub enum Kind {
    Pipe {
        n: u32,
        s: u64,
        alpha: u8,
        chunk: u32,
        mids: Vec<Mid>,
        sink_buf: u32,
        sink_nap: u32,
        traps: bool,
    },
    Subst {
        n: u32,
        s: u64,
        alpha: u8,
        chunk: u32,
        trailing: u32,
        form: Form,
    },
    HereDoc {
        n: u32,
        s: u64,
        quoted: bool,
        read_loop: bool,
        sink_buf: u32,
    },
    ReadSlow {
        words: Vec<String>,
        naps: Vec<u32>,
    },
    /// two concurrent writers on one pipe, records of at most PIPE_BUF bytes
    /// must never be torn (PIPE_BUF atomicity)
    TwoWriters {
        count_a: u32,
        count_b: u32,
        len: u32,
        relay: Option<u32>,
    },
    /// two concurrent writers on one pipe (one open file description), each
    /// with a payload beyond the pipe capacity written in chunks of any size:
    /// both payloads arrive completely and each in its own order
    TwoBigWriters {
        n_a: u32,
        s_a: u64,
        chunk_a: u32,
        n_b: u32,
        s_b: u64,
        chunk_b: u32,
        buf: u32,
        /// 0 pipeline, 1 command substitution
        form: u8,
    },
    /// two concurrent readers on one pipe: every byte reaches exactly one of
    /// them (the lengths, byte sums and sums of squares add up)
    TwoReaders {
        n: u32,
        s: u64,
        chunk: u32,
        buf_a: u32,
        buf_b: u32,
    },
    /// the read built-in on input that arrives in pieces: 0 backslash-newline
    /// continuation, 1 `-r`, 2 a last line without newline, 3 field splitting
    /// with the rest in the last variable, 4 a backslash-escaped blank
    ReadForms {
        variant: u8,
        nap: u32,
    },
    /// engine (p): an operation history on one pipe of the simulated kernel
    /// against the reference model (no shell involved)
    Pipes {
        hist: crate::pipes::PHist,
    },
    /// engine (w): an operation history on WakerSet / ScheduledWakerQueue
    /// against the reference model (no shell involved)
    Wakers {
        hist: crate::wakers::WHist,
    },
    /// reader exits early: liveness and prefix integrity only
    EarlyExit {
        n: u32,
        s: u64,
        chunk: u32,
        buf: u32,
        limit: u32,
    },
}

#[derive(Clone, Debug, Serialize, Deserialize)]
pub struct Case {
    pub kind: Kind,
    pub dash_c: bool,
    /// a pipeline that runs while the shell's standard input is closed: its
    /// pipes land on descriptor 0
    #[serde(default)]
    pub closed_stdin: bool,
    /// 1: interactive shell (`-i -c`), 2: job-control shell (`-m`): the same
    /// data must arrive (the shell's own descriptors >= 10 are left out of
    /// the final listing)
    #[serde(default)]
    pub mode: u8,
    /// (pipelines) the last stage first runs a command with two redirections
    /// of descriptor 0, `: </dev/null </dev/null`: afterwards descriptor 0 is
    /// the pipe again
    #[serde(default)]
    pub twice: bool,
}

fn sizes() -> Vec<u32> {
    let b = PIPE_BUF as u32;
    let s = PIPE_SIZE as u32;
    vec![
        0,
        1,
        2,
        b - 1,
        b,
        b + 1,
        s - 1,
        s,
        s + 1,
        2 * s - 1,
        2 * s,
        2 * s + 1,
        3 * s + 7,
        4 * s,
        4 * s + 1,
    ]
}

fn bufs() -> Vec<u32> {
    let b = PIPE_BUF as u32;
    let s = PIPE_SIZE as u32;
    vec![1, 7, b - 1, b, b + 1, s - 1, s, s + 1, 4096]
}

fn pick_n(rng: &mut Rng, tier: Tier) -> u32 {
    if rng.below(4) == 0 {
        let max = match tier {
            Tier::Quick => 2 * PIPE_SIZE as u32,
            Tier::Thorough => 4 * PIPE_SIZE as u32 + 64,
        };
        rng.below(max + 1)
    } else {
        *rng.pick(&sizes())
    }
}

pub fn generate(rng: &mut Rng, tier: Tier) -> Case {
    let kind = match rng.below(100) {
        0..=44 => {
            let mut n = pick_n(rng, tier);
            let mut chunk = *rng.pick(&bufs());
            let nm = rng.below(3);
            let mut mids = Vec::new();
            let alpha = *rng.pick(&[0u8, 0, 1, 2, 3, 4]);
            let mut tiny = chunk == 1;
            for _ in 0..nm {
                let m = match rng.below(6) {
                    0 if alpha == 1 => Mid::ReadLoop,
                    1 => Mid::SlowRelay(rng.range(1, 5), *rng.pick(&bufs())),
                    _ => Mid::Relay(*rng.pick(&bufs())),
                };
                if matches!(m, Mid::Relay(1) | Mid::SlowRelay(_, 1) | Mid::ReadLoop) {
                    tiny = true;
                }
                mids.push(m);
            }
            let sink_buf = *rng.pick(&bufs());
            if sink_buf == 1 {
                tiny = true;
            }
            if tiny {
                n = n.min(PIPE_SIZE as u32 + 70);
            }
            if alpha >= 3 {
                n = n.min(2 * PIPE_SIZE as u32);
            }
            if chunk == 0 {
                chunk = 1;
            }
            Kind::Pipe {
                n,
                s: rng.next_u64() % 1000,
                alpha,
                chunk,
                mids,
                sink_buf,
                sink_nap: if rng.below(4) == 0 { rng.range(1, 9) } else { 0 },
                traps: rng.below(4) == 0,
            }
        }
        45..=69 => {
            let alpha = *rng.pick(&[0u8, 1, 1, 3, 4, 4]);
            let mut n = pick_n(rng, tier);
            if alpha == 4 && rng.bool() {
                // short payloads: the tail is what matters
                n = rng.below(12);
            }
            let chunk = *rng.pick(&bufs());
            if chunk == 1 {
                n = n.min(PIPE_SIZE as u32 + 70);
            }
            if alpha >= 3 {
                n = n.min(2 * PIPE_SIZE as u32);
            }
            Kind::Subst {
                n,
                s: rng.next_u64() % 1000,
                alpha,
                chunk,
                trailing: rng.below(4),
                form: match rng.below(7) {
                    6 => Form::Closed(rng.range(1, 3) as u8),
                    0 | 1 => Form::Piped(*rng.pick(&bufs())),
                    2 => Form::Nested,
                    3 => Form::InStage,
                    _ => Form::Plain,
                },
            }
        }
        70..=84 => Kind::HereDoc {
            n: pick_n(rng, tier),
            s: rng.next_u64() % 1000,
            quoted: rng.below(3) != 0,
            read_loop: rng.below(4) == 0,
            sink_buf: *rng.pick(&bufs()),
        },
        88 if rng.bool() => Kind::ReadForms {
            variant: rng.below(5) as u8,
            nap: rng.below(4),
        },
        85 => Kind::TwoReaders {
            n: pick_n(rng, tier),
            s: rng.next_u64() % 1000,
            chunk: *rng.pick(&[1u32, 100, 512, 513, 4096]),
            buf_a: *rng.pick(&bufs()),
            buf_b: *rng.pick(&bufs()),
        },
        86 if rng.bool() => {
            let big = |rng: &mut Rng| PIPE_SIZE as u32 / 2 + rng.below(3 * PIPE_SIZE as u32);
            Kind::TwoBigWriters {
                n_a: big(rng),
                s_a: rng.next_u64() % 1000,
                chunk_a: *rng.pick(&bufs()),
                n_b: big(rng),
                s_b: rng.next_u64() % 1000,
                chunk_b: *rng.pick(&bufs()),
                buf: *rng.pick(&bufs()),
                form: rng.below(2) as u8,
            }
        }
        86..=87 => Kind::TwoWriters {
            count_a: rng.range(1, 40),
            count_b: rng.range(1, 40),
            len: *rng.pick(&[2u32, 8, 100, 256, 511, 512]),
            relay: if rng.bool() { Some(*rng.pick(&[1u32, 7, 512, 1024])) } else { None },
        },
        88..=92 => {
            let nw = rng.range(2, 6);
            // some words contain multi-byte characters: the read built-in
            // assembles them from single-byte reads
            let words = (0..nw)
                .map(|i| {
                    let tail = *rng.pick(&["", "", "\u{e9}", "\u{3042}\u{3044}", "\u{1F600}", "\u{df}x"]);
                    format!("w{}x{}{}", i, rng.below(100), tail)
                })
                .collect();
            let naps = (0..nw).map(|_| rng.below(4)).collect();
            Kind::ReadSlow { words, naps }
        }
        _ => {
            let buf = *rng.pick(&[1u32, 7, 100, 512]);
            Kind::EarlyExit {
                n: 2 * PIPE_SIZE as u32 + rng.below(3 * PIPE_SIZE as u32),
                s: rng.next_u64() % 1000,
                chunk: *rng.pick(&bufs()),
                buf,
                limit: if buf == 1 { rng.range(1, 50) } else { rng.range(1, 900) },
            }
        }
    };
    let closed_stdin = matches!(kind, Kind::Pipe { .. }) && rng.below(5) == 0;
    let kind_is_pipe = matches!(kind, Kind::Pipe { .. });
    let mode = *rng.pick(&[0u8, 0, 0, 0, 1, 2]);
    Case {
        kind,
        dash_c: rng.bool() || mode == 1,
        closed_stdin,
        mode,
        twice: matches!(kind_is_pipe, true) && rng.below(6) == 0,
    }
}

fn strip_newlines(mut v: Vec<u8>) -> Vec<u8> {
    while v.last() == Some(&b'\n') {
        v.pop();
    }
    v
}

fn here_payload(n: u32, s: u64) -> Vec<u8> {
    // lower-case letters and newlines; the body of a here-document is a
    // sequence of complete lines
    let mut p = stream_bytes(s, n as usize, 1);
    if p.last() != Some(&b'\n') {
        p.push(b'\n');
    }
    p
}

/// (script, expected stdout or None when only liveness is required)
/// The program and its expected stdout; every program ends with `fds`: the
/// shell finishes with the descriptors it began with.
pub fn render(c: &Case) -> (String, Option<String>) {
    let (mut script, expected) = render_body(c);
    if c.closed_stdin
        && matches!(c.kind, Kind::Pipe { .. })
        && let Some((first, rest)) = script.clone().split_once('\n')
    {
        script = format!("{{ {first}; }} <&-\n{rest}");
    }
    script.push_str("fds\n");
    (script, expected.map(|e| e + "fds: 0 1 2\n"))
}

fn render_body(c: &Case) -> (String, Option<String>) {
    match &c.kind {
        Kind::Pipe {
            n,
            s,
            alpha,
            chunk,
            mids,
            sink_buf,
            sink_nap,
            traps,
        } => {
            let needs_nl = mids.iter().any(|m| matches!(m, Mid::ReadLoop));
            let mut data = stream_bytes(*s, *n as usize, *alpha);
            let trailing = if needs_nl && data.last() != Some(&b'\n') {
                1
            } else {
                0
            };
            data.extend(std::iter::repeat_n(b'\n', trailing));
            let arm = |body: String| {
                if *traps {
                    format!("{{ trap 'rc 0' USR1; mark armed; {body}; mark disarmed; }}")
                } else {
                    body
                }
            };
            let mut script = arm(format!("gen {n} {s} {chunk} {alpha} {trailing}"));
            for m in mids {
                script.push_str(" | ");
                script.push_str(&match m {
                    Mid::Relay(b) => arm(format!("relay {b}")),
                    Mid::ReadLoop => {
                        arm("while IFS= read -r l; do echo \"$l\"; done".to_string())
                    }
                    Mid::SlowRelay(ms, b) => format!("{{ nap {ms}; relay {b}; }}"),
                });
            }
            script.push_str(" | ");
            let twice = if c.twice { ": </dev/null </dev/null; " } else { "" };
            if *sink_nap > 0 {
                script.push_str(&format!("{{ {twice}nap {sink_nap}; sink {s} {alpha} {sink_buf}; }}"));
            } else if c.twice {
                script.push_str(&format!("{{ {twice}sink {s} {alpha} {sink_buf}; }}"));
            } else {
                script.push_str(&format!("sink {s} {alpha} {sink_buf}"));
            }
            script.push_str("\necho \"?=$?\"\n");
            let expected = format!("{}?=0\n", sink_summary(&data, *s, *alpha));
            (script, Some(expected))
        }
        Kind::Subst {
            n,
            s,
            alpha,
            chunk,
            trailing,
            form,
        } => {
            let mut data = stream_bytes(*s, *n as usize, *alpha);
            data.extend(std::iter::repeat_n(b'\n', *trailing as usize));
            let genc = format!("gen {n} {s} {chunk} {alpha} {trailing}");
            let stripped = strip_newlines(data);
            let summary = |v: &[u8]| format!("len={} hash={:016x}\n", v.len(), fnv1a(v));
            match form {
                Form::Plain => (
                    format!("x=$({genc})\necho \"?=$?\"\nstrhash \"$x\"\n"),
                    Some(format!("?=0\n{}", summary(&stripped))),
                ),
                Form::Piped(b) => (
                    format!("x=$({genc} | relay {b})\necho \"?=$?\"\nstrhash \"$x\"\n"),
                    Some(format!("?=0\n{}", summary(&stripped))),
                ),
                Form::Closed(which) => {
                    let closing = match which {
                        1 => ">&-",
                        2 => "<&-",
                        _ => "<&- >&-",
                    };
                    (
                        format!("{{ x=$({genc}); echo \"?=$?\" >&3; strhash \"$x\" >&3; }} 3>&1 {closing}\n"),
                        Some(format!("?=0\n{}", summary(&stripped))),
                    )
                }
                Form::Nested => {
                    let mut v = b"<".to_vec();
                    v.extend_from_slice(&stripped);
                    v.push(b'>');
                    (
                        format!(
                            "x=$(printn '<'; y=$({genc}); printn \"$y\"; printn '>'; echo; echo)\necho \"?=$?\"\nstrhash \"$x\"\n"
                        ),
                        Some(format!("?=0\n{}", summary(&v))),
                    )
                }
                Form::InStage => (
                    format!(
                        "echo start | {{ read z; x=$({genc}); strhash \"$x\"; echo $z; }} | relay 64\necho \"?=$?\"\n"
                    ),
                    Some(format!("{}start\n?=0\n", summary(&stripped))),
                ),
            }
        }
        Kind::HereDoc {
            n,
            s,
            quoted,
            read_loop,
            sink_buf,
        } => {
            let mut payload = here_payload(*n, *s);
            // half of the bodies contain multi-byte characters (bytes != chars)
            if *s % 2 == 1 {
                let mut p = "caf\u{e9} \u{3042}\u{3044} \u{1F600}\n".as_bytes().to_vec();
                p.extend_from_slice(&payload);
                p.extend_from_slice("\u{df}\u{e9}\n".as_bytes());
                payload = p;
            }
            let mut body = payload.clone();
            let mut expected_data = payload.clone();
            let delim = if *quoted { "'EOF'" } else { "EOF" };
            if !*quoted {
                body.extend_from_slice(b"val=$v end\n");
                expected_data.extend_from_slice(b"val=XYZ end\n");
            }
            let body = String::from_utf8(body).unwrap();
            let script = if *read_loop {
                format!(
                    "v=XYZ\n{{ while IFS= read -r l; do echo \"$l\"; done <<{delim}\n{body}EOF\n}} | sink {s} 1 {sink_buf}\necho \"?=$?\"\n"
                )
            } else {
                format!("v=XYZ\nsink {s} 1 {sink_buf} <<{delim}\n{body}EOF\necho \"?=$?\"\n")
            };
            (
                script,
                Some(format!("{}?=0\n", sink_summary(&expected_data, *s, 1))),
            )
        }
        Kind::ReadSlow { words, naps } => {
            // producer writes the words of two lines in pieces with naps between
            let half = words.len() / 2;
            let mut prod = String::new();
            for (i, w) in words.iter().enumerate() {
                if naps[i] > 0 {
                    prod.push_str(&format!("nap {}; ", naps[i]));
                }
                let last_of_line = i + 1 == half || i + 1 == words.len();
                if last_of_line {
                    prod.push_str(&format!("echo {w}; "));
                } else {
                    prod.push_str(&format!("printn '{w} '; "));
                }
            }
            let l1 = &words[..half];
            let l2 = &words[half..];
            let a = l1.first().cloned().unwrap_or_default();
            let b = l1.get(1..).map(|r| r.join(" ")).unwrap_or_default();
            let cc = l2.join(" ");
            let script = format!(
                "{{ {prod}}} | {{ read a b; read c; echo \"[$a][$b][$c]\"; read d; echo \"eof=$?\"; }}\necho \"?=$?\"\n"
            );
            (script, Some(format!("[{a}][{b}][{cc}]\neof=1\n?=0\n")))
        }
        Kind::ReadForms { variant, nap } => {
            let n = if *nap > 0 { format!("nap {nap}; ") } else { String::new() };
            let (prod, cons, out) = match variant {
                0 => (
                    format!("printn 'ab\\'; {n}echo; {n}printn 'c'; {n}echo d"),
                    "read x; echo \"[$x]\"; read y; echo \"eof=$?\"",
                    "[abcd]\neof=1\n",
                ),
                1 => (
                    format!("printn 'ab\\'; {n}echo; {n}echo cd"),
                    "read -r x; echo \"[$x]\"; read -r y; echo \"[$y] ?=$?\"",
                    "[ab\\]\n[cd] ?=0\n",
                ),
                2 => (
                    format!("echo first; {n}printn 'la'; {n}printn 'st'"),
                    "read x; read y; echo \"[$x][$y] ?=$?\"",
                    "[first][last] ?=1\n",
                ),
                3 => (
                    format!("printn 'a  b  '; {n}echo ' c d  '"),
                    "read p q; echo \"[$p][$q] ?=$?\"",
                    "[a][b   c d] ?=0\n",
                ),
                _ => (
                    format!("printn 'a\\ '; {n}echo 'b c'"),
                    "read p q; echo \"[$p][$q] ?=$?\"",
                    "[a b][c] ?=0\n",
                ),
            };
            (format!("{{ {prod}; }} | {{ {cons}; }}\necho \"?=$?\"\n"), Some(format!("{out}?=0\n")))
        }
        Kind::TwoWriters { count_a, count_b, len, relay } => {
            let mid = match relay {
                Some(b) if *b as usize % (*len as usize) == 0 || *b == 1 || true => format!(" | relay {b}"),
                _ => String::new(),
            };
            let mid = if relay.is_some() { mid } else { String::new() };
            (
                format!(
                    "{{ recs A {count_a} {len} & recs B {count_b} {len}; wait; }}{mid} | recsink {len}\necho \"?=$?\"\n"
                ),
                Some(format!(
                    "bytes={} torn=0 A={count_a} B={count_b}\n?=0\n",
                    (count_a + count_b) * len
                )),
            )
        }
        Kind::TwoBigWriters { n_a, s_a, chunk_a, n_b, s_b, chunk_b, buf, form } => {
            let want = format!("A len={n_a} bad=-1 B len={n_b} bad=-1\n?=0\n");
            let writers = format!("gen {n_a} {s_a} {chunk_a} 6 0 & gen {n_b} {s_b} {chunk_b} 7 0");
            if *form == 0 {
                (format!("{{ {writers}; wait; }} | demux {s_a} {s_b} {buf}\necho \"?=$?\"\n"), Some(want))
            } else {
                (format!("x=$({writers}; wait)\nprintn \"$x\" | demux {s_a} {s_b} {buf}\necho \"?=$?\"\n"), Some(want))
            }
        }
        Kind::TwoReaders { n, s, chunk, buf_a, buf_b } => (
            // (an asynchronous list reads /dev/null unless told otherwise:
            // both readers take the pipe from descriptor 3)
            format!(
                "gen {n} {s} {chunk} 2 0 | {{ tally {buf_a} <&3 >/work/t1 & tally {buf_b} <&3 >/work/t2; wait; cat /work/t1 /work/t2; }} 3<&0\necho \"?=$?\"\n"
            ),
            None,
        ),
        Kind::Wakers { hist } => (format!("# waker history: {}\n", serde_json::to_string(hist).unwrap_or_default()), None),
        Kind::Pipes { hist } => (format!("# pipe history: {}\n", serde_json::to_string(hist).unwrap_or_default()), None),
        Kind::EarlyExit {
            n,
            s,
            chunk,
            buf,
            limit,
        } => (
            format!("gen {n} {s} {chunk} 0 0 | relay {buf} {limit} | sink {s} 0 64\necho done\n"),
            None,
        ),
    }
}

fn spec_of(c: &Case) -> ScriptSpec {
    ScriptSpec {
        script: render(c).0,
        dash_c: c.dash_c,
        options: match c.mode {
            1 => vec!["-i".into()],
            2 => vec!["-m".into()],
            _ => Vec::new(),
        },
        ..Default::default()
    }
}

fn draw_config(rng: &mut Rng, k: u32) -> SimConfig {
    let strategy = if k == 0 {
        Strategy::Fifo
    } else {
        match rng.below(10) {
            0..=4 => Strategy::Random,
            5..=6 => Strategy::Pct(rng.range(1, 3)),
            7 => Strategy::RoundRobin,
            _ => Strategy::FifoDev(*rng.pick(&[50u32, 200])),
        }
    };
    let (preempt, clamp) = if k == 0 {
        (0, 0)
    } else {
        (
            *rng.pick(&[0u32, 0, 20, 100, 300]),
            *rng.pick(&[0u32, 0, 100, 500, 900]),
        )
    };
    SimConfig {
        strategy,
        preempt_permille: preempt,
        clamp_permille: clamp,
        max_steps: 400_000,
        pct_horizon: 400,
        ..Default::default()
    }
}

/// Environment: send SIGUSR1 to processes that announced (via `mark armed`)
/// that they have a trap installed, at seeded steps.
fn signal_env(inject_permille: u32) -> impl FnMut(&mut Sim, u64) -> bool {
    let mut seen = 0usize;
    let mut armed: Vec<i32> = Vec::new();
    move |sim: &mut Sim, _step: u64| {
        if inject_permille == 0 {
            return true;
        }
        {
            let h = sim.ctl.history.borrow();
            for e in &h[seen..] {
                if e.kind == "mark" {
                    if e.text.starts_with("armed") {
                        armed.push(e.pid);
                    } else if e.text.starts_with("disarmed") {
                        armed.retain(|p| *p != e.pid);
                    }
                }
            }
            seen = h.len();
        }
        if armed.is_empty() {
            return true;
        }
        let fire = sim.ctl.decider.borrow_mut().chance(tag::ENV, inject_permille);
        if fire {
            let k = sim
                .ctl
                .decider
                .borrow_mut()
                .choose(tag::ENV, armed.len() as u32) as usize;
            let pid = Pid(armed[k]);
            let alive = sim
                .state
                .borrow()
                .processes
                .get(&pid)
                .is_some_and(|p| p.state() == ProcessState::Running);
            if alive {
                let sys = VirtualSystem {
                    state: std::rc::Rc::clone(&sim.state),
                    process_id: Pid(1),
                };
                sim.ctl.quiet.set(true);
                drop(sys.kill(pid, Some(SIGUSR1)));
                sim.ctl.quiet.set(false);
                sim.ctl.count("signal_injected");
            }
        }
        true
    }
}

fn check_run(c: &Case, expected: &Option<String>, obs: &Observed) -> Option<(String, String, String)> {
    if let Some(v) = crate::shellrun::check_liveness(obs) {
        return Some(v);
    }
    match expected {
        Some(exp) => {
            if &obs.stdout != exp || obs.status != "exited:0" || !obs.stderr.is_empty() {
                return Some((
                    "data".into(),
                    "data".into(),
                    format!(
                        "expected stdout {:?} status exited:0\nobserved stdout {:?} status {}\nstderr {:?}",
                        exp, obs.stdout, obs.status, obs.stderr
                    ),
                ));
            }
        }
        None => {
            // early-exiting reader: the shell terminates, the prefix that
            // arrived is in order and at least `limit` bytes long
            if let Kind::TwoReaders { n, s, .. } = &c.kind {
                let data = crate::probes::stream_bytes(*s, *n as usize, 2);
                let want = (
                    data.len() as u64,
                    data.iter().map(|b| *b as u64).sum::<u64>(),
                    data.iter().map(|b| (*b as u64) * (*b as u64)).sum::<u64>(),
                );
                let mut got = (0u64, 0u64, 0u64);
                let mut lines = 0;
                for l in obs.stdout.lines().filter(|l| l.starts_with("len=")) {
                    let f = |k: &str| -> u64 {
                        l.split_whitespace()
                            .find_map(|w| w.strip_prefix(k))
                            .and_then(|v| v.parse().ok())
                            .unwrap_or(u64::MAX / 4)
                    };
                    got = (got.0 + f("len="), got.1 + f("sum="), got.2 + f("sq="));
                    lines += 1;
                }
                if lines != 2 || got != want || !obs.stdout.ends_with("?=0\nfds: 0 1 2\n") || obs.status != "exited:0" || !obs.stderr.is_empty() {
                    return Some((
                        "data".into(),
                        "data:two-readers".into(),
                        format!(
                            "two readers on one pipe: expected the two summaries to add up to len={} sum={} sq={} and '?=0', observed {:?} status {} (stderr {:?})",
                            want.0, want.1, want.2, obs.stdout, obs.status, obs.stderr
                        ),
                    ));
                }
            }
            if let Kind::EarlyExit { limit, buf, .. } = &c.kind {
                let line = obs.stdout.lines().next().unwrap_or("");
                let len: i64 = line
                    .split_whitespace()
                    .find_map(|w| w.strip_prefix("len="))
                    .and_then(|v| v.parse().ok())
                    .unwrap_or(-1);
                let ok_bad = line.contains(" bad=-1 ");
                if !ok_bad
                    || len < *limit as i64
                    || len >= (*limit + *buf) as i64
                    || !obs.stdout.ends_with("done\nfds: 0 1 2\n")
                {
                    return Some((
                        "data".into(),
                        "data:early-exit".into(),
                        format!(
                            "early-exit reader: expected an in-order prefix of {}..{} bytes and 'done', observed {:?} (stderr {:?})",
                            limit,
                            limit + buf - 1,
                            obs.stdout,
                            obs.stderr
                        ),
                    ));
                }
            }
        }
    }
    None
}

fn pipe_failure(hist: &crate::pipes::PHist, class: String, detail: String) -> Failure {
    Failure {
        key: format!("pipe:{class}"),
        class,
        detail: format!("{detail}\n--- history ---\n{}", serde_json::to_string(&hist.ops).unwrap_or_default()),
        case: serde_json::to_value(Case {
            kind: Kind::Pipes { hist: hist.clone() },
            dash_c: false,
            closed_stdin: false,
            mode: 0,
            twice: false,
        })
        .unwrap(),
        cfg: SimConfig::default(),
        decisions: Vec::new(),
        history_tail: Vec::new(),
    }
}

fn waker_failure(hist: &crate::wakers::WHist, class: String, detail: String) -> Failure {
    Failure {
        key: format!("wakers:{class}"),
        class,
        detail: format!("{detail}\n--- history ---\n{}", serde_json::to_string(&hist.ops).unwrap_or_default()),
        case: serde_json::to_value(Case {
            kind: Kind::Wakers { hist: hist.clone() },
            dash_c: false,
            closed_stdin: false,
            mode: 0,
            twice: false,
        })
        .unwrap(),
        cfg: SimConfig::default(),
        decisions: Vec::new(),
        history_tail: Vec::new(),
    }
}

/// (an interactive or job-control shell keeps a descriptor >= 10 of its own)
fn norm_fds(c: &Case, mut obs: Observed) -> Observed {
    if c.mode != 0 {
        let mut out = String::new();
        for l in obs.stdout.split_inclusive('\n') {
            if l.starts_with("fds:") {
                let kept: Vec<&str> = l
                    .trim_end_matches('\n')
                    .split(' ')
                    .filter(|t| t.trim_end_matches('c').parse::<u32>().map_or(true, |n| n < 10))
                    .collect();
                out.push_str(&kept.join(" "));
                if l.ends_with('\n') {
                    out.push('\n');
                }
            } else {
                out.push_str(l);
            }
        }
        obs.stdout = out;
    }
    obs
}

fn run_crash(c: &Case, cfg: &SimConfig, decider: Decider) -> Observed {
    norm_fds(c, run_script_with(&spec_of(c), cfg, decider, |_| {}, crate::shellrun::crash_env(cfg)))
}

fn run_one(
    c: &Case,
    cfg: &SimConfig,
    decider: Decider,
    inject: u32,
) -> (Observed, Option<(String, String, String)>) {
    let (_, expected) = render(c);
    let obs = norm_fds(c, run_script_with(&spec_of(c), cfg, decider, |_| {}, signal_env(inject)));
    let v = check_run(c, &expected, &obs);
    (obs, v)
}

/// The per-run signal injection rate travels in the configuration so that a
/// replay uses the same value.
fn inject_rate(c: &Case, cfg: &SimConfig) -> u32 {
    match &c.kind {
        Kind::Pipe { traps: true, .. } if cfg.strategy != Strategy::Fifo => 60,
        _ => 0,
    }
}

fn failure(c: &Case, cfg: &SimConfig, obs: &Observed, _decisions: &[Decision], v: (String, String, String)) -> Failure {
    let script = render(c).0;
    let shown: String = script.chars().take(1500).collect();
    Failure {
        class: v.0,
        key: v.1,
        detail: format!("{}\n--- script ---\n{}", v.2, shown),
        case: serde_json::to_value(c).unwrap(),
        cfg: cfg.clone(),
        decisions: obs.decisions.clone(),
        history_tail: history_tail(&obs.history, 40),
    }
}

pub struct C14;

impl Prop for C14 {
    fn id(&self) -> &'static str {
        "C14"
    }
    fn level(&self) -> &'static str {
        "exploration"
    }
    fn rule(&self) -> String {
        format!("Seeded cases of five kinds: gen|relay...|sink pipelines (1-4 stages, payload sizes around PIPE_BUF={PIPE_BUF} and PIPE_SIZE={PIPE_SIZE} boundaries up to 4x capacity, chunk/buffer sizes 1..4096, four payload alphabets incl. arbitrary bytes and multi-byte UTF-8, slow stages with timers, stages with a USR1 trap signalled by the simulator); command substitutions (plain, piped, nested, inside a pipeline stage; 0-3 trailing newlines); here-documents (quoted/unquoted, read by sink or by a `read` loop); the real `read` built-in on a slow producer; an early-exiting reader (liveness + prefix integrity). Exact byte-stream oracle computed by the generator. Schedules: FIFO baseline + seeded random/PCT/round-robin/FIFO-dev with preemption at every read/write, short reads and legal partial writes. A run is distinct non-trivial if it had >= 2 processes and a scheduling point with >= 2 ready tasks (or a fired fault) and its (script hash, schedule hash, fault count) was not seen before.")
    }
    fn assumptions(&self) -> Vec<String> {
        vec![
            "decided relative to the repository's simulated kernel (VirtualSystem pipes: PIPE_BUF atomicity, PIPE_SIZE capacity) Added kinds: two processes writing PIPE_BUF-sized records to one pipe (no record torn), two processes each writing a payload beyond the pipe capacity in large chunks to one open file description (pipeline and command substitution; both payloads arrive completely, each in its own order), two processes reading one pipe (sums add up); a third of the cases run in an interactive (`-i`) or job-control (`-m`) shell - same data; crash-injection runs (liveness); every program ends by printing the shell's descriptor table; engine (p): 20/60 seeded histories per case on one pipe of the simulated kernel (read, write, dup, close, O_NONBLOCK switches, zero-timeout select; sizes around PIPE_BUF and the capacity) against a POSIX pipe model - results byte for byte, a blocked operation is woken exactly when it can proceed, select agrees with readiness; engine (w): 20/60 seeded histories per case on the real WakerSet / ScheduledWakerQueue against a reference model (cells dropped, emptied, re-filled at arbitrary points).".into(),
            "SIGPIPE is not modelled by the simulated kernel (EPIPE only); the early-exit case therefore checks liveness and prefix integrity only".into(),
            "sampling of schedules and sizes, not enumeration".into(),
        ]
    }
    fn components(&self) -> Value {
        json!({
            "real": ["Concurrent read/write/select, read_all_to/write_all, VirtualSystem pipes and files, pipeline/command-substitution/here-document execution, read built-in, trap execution"],
            "stub": ["seeded scheduler", "gen/relay/sink/strhash/printn/nap probe built-ins", "simulator-side signal sender"]
        })
    }
    fn cases(&self, tier: Tier) -> u64 {
        match tier {
            Tier::Quick => 6000,
            Tier::Thorough => 40_000,
        }
    }

    fn run_case(&self, seed: u64, index: u64, tier: Tier, stats: &mut Stats) -> Option<Failure> {
        let mut rng = Rng::stream(seed, 14, index);
        let case = generate(&mut rng, tier);
        let (script, expected) = render(&case);
        let case_hash = hash_str(&script);
        // engine (w): wake-up bookkeeping histories (cheap: tens per case)
        {
            let mut wr = Rng::stream(seed, 1477, index);
            let n = match tier {
                Tier::Quick => 20,
                Tier::Thorough => 60,
            };
            let mut reach = std::collections::BTreeMap::new();
            for _ in 0..n {
                let hist = crate::wakers::generate(&mut wr, tier == Tier::Thorough);
                stats.count("waker_histories", 1);
                if let Some((class, detail)) = crate::wakers::run(&hist, &mut reach) {
                    stats.count("violating_runs", 1);
                    return Some(waker_failure(&hist, class, detail));
                }
            }
            for (k, v) in reach {
                stats.count(k, v);
            }
        }
        // engine (p): one pipe of the simulated kernel against a POSIX pipe model
        {
            let mut pr = Rng::stream(seed, 1478, index);
            let n = match tier {
                Tier::Quick => 20,
                Tier::Thorough => 60,
            };
            let mut reach = std::collections::BTreeMap::new();
            for _ in 0..n {
                let hist = crate::pipes::generate(&mut pr, tier == Tier::Thorough);
                stats.count("pipe_histories", 1);
                let r = crate::sim::catch(|| crate::pipes::run(&hist, &mut reach));
                let v = match r {
                    Ok(v) => v,
                    Err(p) => Some(("panic".to_string(), p)),
                };
                if let Some((class, detail)) = v {
                    stats.count("violating_runs", 1);
                    return Some(pipe_failure(&hist, class, detail));
                }
            }
            for (k, v) in reach {
                stats.count(k, v);
            }
        }
        let schedules = match tier {
            Tier::Quick => 8,
            Tier::Thorough => 24,
        };
        for k in 0..schedules {
            let cfg = draw_config(&mut rng, k);
            let decider = Decider::record(Rng::stream(seed, 1400 + k as u64, index));
            let (obs, v) = run_one(&case, &cfg, decider, inject_rate(&case, &cfg));
            {
                let o = &obs;
                stats.note_run(case_hash, &o.outcome, o.faults_fired);
                stats.add_counters(&o.counters);
                stats.digest(index, obs_digest(o));
                let kind = match &case.kind {
                    Kind::Pipe { .. } => "kind:pipeline",
                    Kind::Subst { .. } => "kind:command-substitution",
                    Kind::HereDoc { .. } => "kind:here-document",
                    Kind::ReadSlow { .. } => "kind:read-slow-producer",
                    Kind::EarlyExit { .. } => "kind:early-exit-reader",
                    Kind::TwoWriters { .. } => "kind:two-writers-atomicity",
                    Kind::TwoBigWriters { .. } => "kind:two-big-writers",
                    Kind::TwoReaders { .. } => "kind:two-readers-partition",
                    Kind::Wakers { .. } => "kind:waker-history",
                    Kind::Pipes { .. } => "kind:pipe-history",
                    Kind::ReadForms { .. } => "kind:read-forms",
                };
                stats.count(kind, 1);
                if k == 0 && stats.samples.len() < 3 && index % 7 == 0 {
                    stats.samples.push(json!({
                        "case": serde_json::to_value(&case).unwrap(),
                        "script": script.chars().take(600).collect::<String>(),
                        "expected_stdout": expected,
                        "fifo_baseline": {"steps": o.outcome.steps, "processes": o.outcome.tasks, "stdout": o.stdout},
                    }));
                }
            }
            if let Some(v) = v {
                stats.count("violating_runs", 1);
                return Some(failure(&case, &cfg, &obs, &[], v));
            }
        }
        // crash injection: a stage is killed (SIGKILL from outside) at a seeded
        // instant. The data oracle no longer applies; every surviving process
        // must still terminate (EOF for readers, EPIPE for writers).
        let crash_runs = match tier {
            Tier::Quick => 1,
            Tier::Thorough => 3,
        };
        for j in 0..crash_runs {
            let mut cfg = draw_config(&mut rng, 1 + j);
            cfg.crash_permille = *rng.pick(&[10u32, 40, 120]);
            cfg.crash_max = rng.range(1, 2);
            let obs = run_crash(&case, &cfg, Decider::record(Rng::stream(seed, 1490 + j as u64, index)));
            stats.note_run(case_hash ^ 0xC4A5, &obs.outcome, obs.faults_fired);
            stats.add_counters(&obs.counters);
            stats.digest(index, obs_digest(&obs));
            if let Some(mut v) = crate::shellrun::check_liveness(&obs) {
                stats.count("violating_runs", 1);
                v.1 = format!("crash:{}", v.1);
                return Some(failure(&case, &cfg, &obs, &[], v));
            }
        }
        None
    }

    fn rerun(&self, case: &Value, cfg: &SimConfig, decisions: &[Decision]) -> Option<Failure> {
        let c: Case = serde_json::from_value(case.clone()).ok()?;
        if let Kind::Pipes { hist } = &c.kind {
            let mut reach = std::collections::BTreeMap::new();
            let r = crate::sim::catch(|| crate::pipes::run(hist, &mut reach));
            let v = match r {
                Ok(v) => v,
                Err(p) => Some(("panic".to_string(), p)),
            };
            return v.map(|(class, detail)| pipe_failure(hist, class, detail));
        }
        if let Kind::Wakers { hist } = &c.kind {
            let mut reach = std::collections::BTreeMap::new();
            return crate::wakers::run(hist, &mut reach).map(|(class, detail)| waker_failure(hist, class, detail));
        }
        if cfg.crash_permille > 0 {
            let obs = run_crash(&c, cfg, Decider::replay(decisions));
            return crate::shellrun::check_liveness(&obs).map(|mut v| {
                v.1 = format!("crash:{}", v.1);
                failure(&c, cfg, &obs, decisions, v)
            });
        }
        let (obs, v) = run_one(&c, cfg, Decider::replay(decisions), inject_rate(&c, cfg));
        v.map(|v| failure(&c, cfg, &obs, decisions, v))
    }

    fn shrink(&self, case: &Value) -> Vec<Value> {
        let Ok(c) = serde_json::from_value::<Case>(case.clone()) else {
            return Vec::new();
        };
        let mut out = Vec::new();
        let mut push = |k: Kind| {
            out.push(
                serde_json::to_value(Case {
                    kind: k,
                    dash_c: c.dash_c,
                    closed_stdin: c.closed_stdin,
                    mode: c.mode,
                    twice: c.twice,
                })
                .unwrap(),
            )
        };
        // shrink sizes towards the nearest smaller buffer boundary / halves
        let smaller = |n: u32| -> Vec<u32> {
            let mut v: Vec<u32> = sizes().into_iter().filter(|x| *x < n).collect();
            v.push(n / 2);
            v.push(n.saturating_sub(1));
            v.sort();
            v.dedup();
            v.retain(|x| *x < n);
            v
        };
        match &c.kind {
            Kind::Pipe { n, s, alpha, chunk, mids, sink_buf, sink_nap, traps } => {
                for k in 0..mids.len() {
                    let mut m = mids.clone();
                    m.remove(k);
                    push(Kind::Pipe { n: *n, s: *s, alpha: *alpha, chunk: *chunk, mids: m, sink_buf: *sink_buf, sink_nap: *sink_nap, traps: *traps });
                }
                if *traps {
                    push(Kind::Pipe { n: *n, s: *s, alpha: *alpha, chunk: *chunk, mids: mids.clone(), sink_buf: *sink_buf, sink_nap: *sink_nap, traps: false });
                }
                if *sink_nap > 0 {
                    push(Kind::Pipe { n: *n, s: *s, alpha: *alpha, chunk: *chunk, mids: mids.clone(), sink_buf: *sink_buf, sink_nap: 0, traps: *traps });
                }
                for m in smaller(*n) {
                    push(Kind::Pipe { n: m, s: *s, alpha: *alpha, chunk: *chunk, mids: mids.clone(), sink_buf: *sink_buf, sink_nap: *sink_nap, traps: *traps });
                }
                if *alpha != 0 && !mids.iter().any(|m| matches!(m, Mid::ReadLoop)) {
                    push(Kind::Pipe { n: *n, s: *s, alpha: 0, chunk: *chunk, mids: mids.clone(), sink_buf: *sink_buf, sink_nap: *sink_nap, traps: *traps });
                }
            }
            Kind::Subst { n, s, alpha, chunk, trailing, form } => {
                if *form != Form::Plain {
                    push(Kind::Subst { n: *n, s: *s, alpha: *alpha, chunk: *chunk, trailing: *trailing, form: Form::Plain });
                }
                if *trailing > 0 {
                    push(Kind::Subst { n: *n, s: *s, alpha: *alpha, chunk: *chunk, trailing: trailing - 1, form: form.clone() });
                }
                for m in smaller(*n) {
                    push(Kind::Subst { n: m, s: *s, alpha: *alpha, chunk: *chunk, trailing: *trailing, form: form.clone() });
                }
                if *alpha != 0 {
                    push(Kind::Subst { n: *n, s: *s, alpha: 0, chunk: *chunk, trailing: *trailing, form: form.clone() });
                }
            }
            Kind::HereDoc { n, s, quoted, read_loop, sink_buf } => {
                if *read_loop {
                    push(Kind::HereDoc { n: *n, s: *s, quoted: *quoted, read_loop: false, sink_buf: *sink_buf });
                }
                if !*quoted {
                    push(Kind::HereDoc { n: *n, s: *s, quoted: true, read_loop: *read_loop, sink_buf: *sink_buf });
                }
                for m in smaller(*n) {
                    push(Kind::HereDoc { n: m, s: *s, quoted: *quoted, read_loop: *read_loop, sink_buf: *sink_buf });
                }
            }
            Kind::ReadSlow { words, naps } => {
                if naps.iter().any(|x| *x > 0) {
                    push(Kind::ReadSlow { words: words.clone(), naps: vec![0; naps.len()] });
                }
            }
            Kind::TwoWriters { count_a, count_b, len, relay } => {
                if relay.is_some() {
                    push(Kind::TwoWriters { count_a: *count_a, count_b: *count_b, len: *len, relay: None });
                }
                if *count_a > 1 {
                    push(Kind::TwoWriters { count_a: count_a / 2, count_b: *count_b, len: *len, relay: *relay });
                }
                if *count_b > 1 {
                    push(Kind::TwoWriters { count_a: *count_a, count_b: count_b / 2, len: *len, relay: *relay });
                }
            }
            Kind::TwoBigWriters { n_a, s_a, chunk_a, n_b, s_b, chunk_b, buf, form } => {
                for m in smaller(*n_a) {
                    push(Kind::TwoBigWriters { n_a: m, s_a: *s_a, chunk_a: *chunk_a, n_b: *n_b, s_b: *s_b, chunk_b: *chunk_b, buf: *buf, form: *form });
                }
                for m in smaller(*n_b) {
                    push(Kind::TwoBigWriters { n_a: *n_a, s_a: *s_a, chunk_a: *chunk_a, n_b: m, s_b: *s_b, chunk_b: *chunk_b, buf: *buf, form: *form });
                }
            }
            Kind::TwoReaders { n, s, chunk, buf_a, buf_b } => {
                for m in smaller(*n) {
                    push(Kind::TwoReaders { n: m, s: *s, chunk: *chunk, buf_a: *buf_a, buf_b: *buf_b });
                }
            }
            Kind::ReadForms { variant, nap } => {
                if *nap > 0 {
                    push(Kind::ReadForms { variant: *variant, nap: 0 });
                }
            }
            Kind::Pipes { hist } => {
                for h in crate::pipes::shrink(hist) {
                    push(Kind::Pipes { hist: h });
                }
            }
            Kind::Wakers { hist } => {
                for h in crate::wakers::shrink(hist) {
                    push(Kind::Wakers { hist: h });
                }
            }
            Kind::EarlyExit { n, s, chunk, buf, limit } => {
                for m in smaller(*n) {
                    if m > limit + buf {
                        push(Kind::EarlyExit { n: m, s: *s, chunk: *chunk, buf: *buf, limit: *limit });
                    }
                }
            }
        }
        out
    }
}
