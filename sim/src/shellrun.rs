//! One simulated execution of a whole shell on the simulated OS.

use crate::probes;
use crate::rng::{Decider, Decision};
use crate::sim::{Ev, RunOutcome, Sim, SimConfig};
use crate::world::{ShellSpec, World};
use std::collections::BTreeMap;
use yash_env::job::Pid;

#[derive(Clone, Debug, Default)]
pub struct ScriptSpec {
    pub script: String,
    /// Feed the script through `-c` (false: through standard input as a file).
    pub dash_c: bool,
    /// Run the script as a command file (`sh /work/script.sh`); standard input
    /// then holds `stdin`. Ignored when `dash_c`.
    pub as_file: bool,
    /// Extra command-line options, e.g. ["-o", "pipefail"].
    pub options: Vec<String>,
    /// Files to create beforehand: (path, content, mode).
    pub files: Vec<(String, Vec<u8>, u32)>,
    /// Content of standard input when `dash_c` (data for `read`).
    pub stdin: Vec<u8>,
}

#[derive(Clone, Debug, Default)]
pub struct Observed {
    pub stdout: String,
    pub stderr: String,
    /// state of pid 2 at the end, e.g. "exited:0"
    pub status: String,
    pub outcome: RunOutcome,
    /// files below /work: path -> (type, mode, content)
    pub files: BTreeMap<String, (char, u32, Vec<u8>)>,
    pub history: Vec<Ev>,
    pub decisions: Vec<Decision>,
    pub counters: BTreeMap<&'static str, u64>,
    pub faults_fired: u64,
    pub alloc_count: u32,
    /// (writes to, reads from) regular files
    pub file_io: (u32, u32),
    /// message of a panic caught during the run
    pub panic: Option<String>,
}

impl Observed {
    pub fn counter_sum(&self, keys: &[&str]) -> u64 {
        keys.iter().map(|k| self.counters.get(k).copied().unwrap_or(0)).sum()
    }
}

pub fn fault_count(c: &BTreeMap<&'static str, u64>) -> u64 {
    ["preempt", "short_read", "short_write", "emfile", "eagain_fork", "signal_injected"]
        .iter()
        .map(|k| c.get(k).copied().unwrap_or(0))
        .sum()
}

/// Runs the script; `env` may inject environment events before each step.
/// A panic anywhere in the simulated system is caught and reported in
/// `Observed::panic`; the decision log and history up to that point are kept so
/// that the run can be replayed.
pub fn run_script_with(
    spec: &ScriptSpec,
    cfg: &SimConfig,
    decider: Decider,
    setup: impl FnOnce(&mut World),
    env: impl FnMut(&mut Sim, u64) -> bool,
) -> Observed {
    let mut w = World::new(cfg.clone(), decider);
    let result = crate::sim::catch(|| {
        for (path, content, mode) in &spec.files {
            w.put_file(path, content, *mode);
        }
        let mut args: Vec<String> = vec!["sh".into()];
        args.extend(spec.options.iter().cloned());
        if spec.dash_c {
            args.push("-c".into());
            args.push(spec.script.clone());
            w.set_stdin(&spec.stdin);
        } else if spec.as_file {
            w.put_file("/work/script.sh", spec.script.as_bytes(), 0o644);
            args.push("/work/script.sh".into());
            w.set_stdin(&spec.stdin);
        } else {
            w.set_stdin(spec.script.as_bytes());
        }
        setup(&mut w);
        w.spawn_shell(
            ShellSpec {
                args,
                vars: vec![("PATH".into(), "/bin".into())],
            },
            probes::virtual_probes(),
        );
        w.sim.run(env)
    });
    let counters = w.sim.ctl.counters.borrow().clone();
    let mut obs = Observed {
        history: std::mem::take(&mut *w.sim.ctl.history.borrow_mut()),
        decisions: w.sim.decisions(),
        faults_fired: fault_count(&counters),
        alloc_count: w.sim.ctl.alloc_count(),
        file_io: w.sim.ctl.file_io_counts(),
        counters,
        ..Default::default()
    };
    match result {
        Ok(outcome) => {
            obs.stdout = String::from_utf8_lossy(&w.stdout()).into_owned();
            obs.stderr = String::from_utf8_lossy(&w.stderr()).into_owned();
            obs.status = w.exit_status_of(Pid(2)).unwrap_or_default();
            obs.files = w.tree("/work");
            obs.outcome = outcome;
        }
        Err(p) => obs.panic = Some(p),
    }
    // Dropping a world whose run panicked may panic again; contain it.
    let _ = crate::sim::catch(move || drop(w));
    obs
}

pub fn run_script(spec: &ScriptSpec, cfg: &SimConfig, decider: Decider) -> Observed {
    run_script_with(spec, cfg, decider, |_| {}, |_, _| true)
}

pub fn history_tail(h: &[Ev], n: usize) -> Vec<Ev> {
    let n = std::env::var("VERIF_HISTORY_TAIL").ok().and_then(|s| s.parse().ok()).unwrap_or(n);
    h[h.len().saturating_sub(n)..].to_vec()
}

/// Digest of everything observable in a run (determinism self-test).
pub fn obs_digest(o: &Observed) -> u64 {
    use crate::rng::{fnv1a, fnv_combine};
    let mut d = fnv1a(o.stdout.as_bytes());
    d = fnv_combine(d, fnv1a(o.stderr.as_bytes()));
    d = fnv_combine(d, fnv1a(o.status.as_bytes()));
    d = fnv_combine(d, o.outcome.schedule_hash);
    d = fnv_combine(d, o.outcome.steps);
    for e in &o.history {
        d = fnv_combine(d, e.seq);
        d = fnv_combine(d, e.pid as u64);
        d = fnv_combine(d, fnv1a(e.kind.as_bytes()));
        d = fnv_combine(d, e.a as u64);
        d = fnv_combine(d, e.b as u64);
        d = fnv_combine(d, fnv1a(e.text.as_bytes()));
    }
    for (path, (t, mode, content)) in &o.files {
        d = fnv_combine(d, fnv1a(path.as_bytes()));
        d = fnv_combine(d, *t as u64 ^ ((*mode as u64) << 8));
        d = fnv_combine(d, fnv1a(content));
    }
    for dec in &o.decisions {
        d = fnv_combine(d, ((dec.tag as u64) << 40) ^ ((dec.n as u64) << 20) ^ dec.v as u64);
    }
    d
}

/// Violation triple (class, key, detail).
pub type Viol = (String, String, String);

/// Checks common to all whole-shell properties: no panic, no budget
/// exhaustion, no deadlock (every process finished).
pub fn check_liveness(obs: &Observed) -> Option<Viol> {
    if let Some(p) = &obs.panic {
        let site = p.split('@').next_back().unwrap_or("").trim().to_string();
        let class = if p.starts_with("livelock") { "livelock" } else { "panic" };
        return Some((class.into(), format!("{class}:{site}"), p.clone()));
    }
    let o = &obs.outcome;
    if o.budget_exhausted {
        return Some((
            "budget".into(),
            "budget".into(),
            format!("step budget exhausted after {} steps", o.steps),
        ));
    }
    let alive: Vec<String> = o
        .procs
        .iter()
        .filter(|p| p.state == "running" || p.state.starts_with("stopped"))
        .map(|p| format!("pid {} ({}; fds {})", p.pid, p.state, p.fds))
        .collect();
    // (A task object may outlive its process - e.g. the task of a process killed
    // while stopped is never polled again - which is invisible to any process;
    // what matters is that no *process* is left unfinished.)
    if !o.main_done || !alive.is_empty() {
        return Some((
            "deadlock".into(),
            "deadlock".into(),
            format!(
                "no runnable process and no timer, but unfinished: {} (main_done={})",
                alive.join(", "),
                o.main_done
            ),
        ));
    }
    None
}

/// Environment: crash injection. At seeded steps a running process other than
/// the main shell (pid 2) is killed with SIGKILL by pid 1 - what the OOM
/// killer or an administrator does to a real shell's children at arbitrary
/// instants. The kill is recorded in the history as an ordinary `kill` event.
pub fn crash_env(cfg: &SimConfig) -> impl FnMut(&mut Sim, u64) -> bool + use<> {
    let rate = cfg.crash_permille;
    let max = cfg.crash_max;
    let mut done = 0u32;
    move |sim: &mut Sim, _step: u64| {
        if rate == 0 || done >= max {
            return true;
        }
        if !sim.ctl.decider.borrow_mut().chance(crate::rng::tag::ENV, rate) {
            return true;
        }
        let victims: Vec<yash_env::job::Pid> = sim
            .state
            .borrow()
            .processes
            .iter()
            .filter(|(pid, p)| pid.0 > 2 && p.state() == yash_env::job::ProcessState::Running)
            .map(|(pid, _)| *pid)
            .collect();
        if victims.is_empty() {
            return true;
        }
        let k = sim.ctl.decider.borrow_mut().choose(crate::rng::tag::ENV, victims.len() as u32) as usize;
        let sys = yash_env::system::r#virtual::VirtualSystem {
            state: std::rc::Rc::clone(&sim.state),
            process_id: yash_env::job::Pid(1),
        };
        {
            use yash_env::system::SendSignal as _;
            drop(sys.kill(victims[k], Some(yash_env::system::r#virtual::SIGKILL)));
        }
        done += 1;
        sim.ctl.count("crash_injected");
        true
    }
}

/// Plan for signals sent by the simulator to the main shell (pid 2) while the
/// script says it is armed (`mark armed` ... `mark disarmed`); trap actions
/// announce themselves with `mark tb <name>` / `mark te <name>`.
#[derive(Clone, Copy, Debug)]
pub struct SigPlan {
    pub inject: bool,
    /// the next signal is sent only after the previous action finished
    pub spaced: bool,
    /// permille per scheduler step
    pub rate: u32,
    pub max: u32,
    /// SIGUSR2: 0 never sent, 1 has a command trap, 2 is ignored
    pub second: u8,
}

/// Environment: sends yash_env::system::r#virtual::SIGUSR1 / yash_env::system::r#virtual::SIGUSR2 to the main shell at seeded steps while
/// the script is armed (its traps are installed).
pub fn signal_env(p: SigPlan) -> impl FnMut(&mut Sim, u64) -> bool + use<> {
    let inject = p.inject;
    let spaced = p.spaced;
    let rate = p.rate;
    let max = p.max;
    let trap2 = p.second;
    let mut seen = 0usize;
    let mut armed = false;
    let mut ends = 0u32;
    let mut sent = 0u32;
    let mut sent_trapped = 0u32;
    move |sim: &mut Sim, _step: u64| {
        if !inject {
            return true;
        }
        {
            let h = sim.ctl.history.borrow();
            for e in &h[seen..] {
                if e.kind == "mark" && e.text.starts_with("disarmed") {
                    // (any process may disarm: a child of the command that
                    // ends the shell does so while the shell waits for it)
                    armed = false;
                } else if e.kind == "mark" && e.pid == 2 {
                    if e.text.starts_with("armed") {
                        armed = true;
                    } else if e.text.starts_with("te ") {
                        ends += 1;
                    }
                }
            }
            seen = h.len();
        }
        if !armed || sent >= max {
            return true;
        }
        if spaced && ends < sent_trapped {
            return true;
        }
        if !sim.ctl.decider.borrow_mut().chance(crate::rng::tag::ENV, rate) {
            return true;
        }
        let alive = sim
            .state
            .borrow()
            .processes
            .get(&yash_env::job::Pid(2))
            .is_some_and(|p| p.state() == yash_env::job::ProcessState::Running);
        if !alive {
            return true;
        }
        let second = trap2 != 0 && sim.ctl.decider.borrow_mut().choose(crate::rng::tag::ENV, 3) == 0;
        let sig = if second { yash_env::system::r#virtual::SIGUSR2 } else { yash_env::system::r#virtual::SIGUSR1 };
        let sys = yash_env::system::r#virtual::VirtualSystem {
            state: std::rc::Rc::clone(&sim.state),
            process_id: yash_env::job::Pid(1),
        };
        sim.ctl.quiet.set(true);
        { use yash_env::system::SendSignal as _; drop(sys.kill(yash_env::job::Pid(2), Some(sig))); }
        sim.ctl.quiet.set(false);
        sent += 1;
        if !second || trap2 == 1 {
            sent_trapped += 1;
        }
        sim.ctl.count("signal_injected");
        sim.ctl.record(1, "deliver", if second { 2 } else { 1 }, 0, "");
        true
    }
}


/// Replaces the shell's standard input by a pipe written by an auxiliary
/// process: each item is delivered in one piece after the given nap
/// (simulated milliseconds). The pipe is closed after the last one.
pub fn plumb_slow_stdin(w: &mut World, items: Vec<(u64, Vec<u8>)>) {
    use crate::world::VS;
    use yash_env::io::Fd;
    use yash_env::semantics::ExitStatus;
    use yash_env::system::concurrency::{Sleep as _, WriteAll as _};
    use yash_env::system::{Close as _, Dup as _, Exit as _, Pipe as _};
    let (r, wfd) = w.system.pipe().unwrap();
    w.system.dup2(r, Fd(0)).unwrap();
    w.system.close(r).unwrap();
    let body = w.system.state.borrow().processes[&Pid(2)].fds()[&wfd].clone();
    w.system.close(wfd).unwrap();
    w.spawn_aux(
        move |sys| {
            sys.current_process_mut().set_fd(Fd(1), body).ok();
        },
        move |conc: VS| async move {
            for (nap, data) in items {
                if nap > 0 {
                    conc.sleep(std::time::Duration::from_millis(nap)).await;
                }
                if conc.write_all(Fd(1), &data).await.is_err() {
                    break;
                }
            }
            conc.close(Fd(1)).ok();
            conc.exit(ExitStatus(0)).await;
        },
    );
}
