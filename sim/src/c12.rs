//! C12 - the job table stays consistent over every history of job events.
//!
//! Two engines share one invariant checker: (a) seeded event histories applied
//! directly to `JobList` (the legal oddities a kernel may deliver in any
//! order); (b) whole-shell runs under `set -m` where simulated children stop,
//! continue and exit in seeded order and a `jobcheck` probe evaluates the
//! invariants on the real `Env::jobs` after every command.

use crate::harness::{Failure, Prop, Stats, Tier, hash_str};
use crate::rng::{Decider, Decision, Rng, fnv1a, fnv_combine, tag};
use crate::shellrun::{Observed, ScriptSpec, Viol, check_liveness, history_tail, obs_digest, run_script_with};
use crate::sim::{Sim, SimConfig, Strategy};
use serde::{Deserialize, Serialize};
use serde_json::{Value, json};
use std::collections::{BTreeMap, BTreeSet};
use yash_env::job::id::JobId;
use yash_env::job::{Job, JobList, Pid, ProcessResult, ProcessState, SetCurrentJobError};
use yash_env::semantics::ExitStatus;
use yash_env::system::r#virtual::{SIGCONT, SIGKILL, SIGSTOP, SIGTSTP};

/// The invariants of the property statement, evaluated through the public API.
pub fn check_invariants(jobs: &JobList) -> Result<(), (String, String)> {
    let all: Vec<(usize, &Job)> = jobs.iter().collect();
    let n = all.len();
    if n != jobs.len() {
        return Err(("len".into(), format!("iter() yields {n} jobs but len() is {}", jobs.len())));
    }
    let cur = jobs.current_job();
    let prev = jobs.previous_job();
    if n >= 1 {
        match cur {
            None => return Err(("no-current".into(), format!("{n} jobs but no current job"))),
            Some(c) if jobs.get(c).is_none() => {
                return Err(("no-current".into(), format!("current job {c} does not exist")));
            }
            _ => {}
        }
    } else if cur.is_some() || prev.is_some() {
        return Err(("phantom".into(), "empty table has a current or previous job".into()));
    }
    if n >= 2 {
        match prev {
            None => return Err(("no-previous".into(), format!("{n} jobs but no previous job"))),
            Some(p) if jobs.get(p).is_none() => {
                return Err(("no-previous".into(), format!("previous job {p} does not exist")));
            }
            Some(p) if Some(p) == cur => {
                return Err(("prev-is-current".into(), format!("previous job {p} is the current job")));
            }
            _ => {}
        }
    } else if prev.is_some() {
        return Err(("phantom".into(), "fewer than two jobs but a previous job".into()));
    }
    let suspended: Vec<usize> = all.iter().filter(|(_, j)| j.state.is_stopped()).map(|(i, _)| *i).collect();
    if !suspended.is_empty() && !cur.is_some_and(|c| suspended.contains(&c)) {
        return Err((
            "current-not-suspended".into(),
            format!("suspended jobs {suspended:?} exist but the current job {cur:?} is not suspended"),
        ));
    }
    if suspended.len() >= 2 && !prev.is_some_and(|p| suspended.contains(&p)) {
        return Err((
            "previous-not-suspended".into(),
            format!("suspended jobs {suspended:?} exist but the previous job {prev:?} is not suspended"),
        ));
    }
    let mut pids = BTreeSet::new();
    for (i, j) in &all {
        if !pids.insert(j.pid.0) {
            return Err(("dup-pid".into(), format!("process {} designates more than one job", j.pid)));
        }
        if jobs.find_by_pid(j.pid) != Some(*i) {
            return Err((
                "pid-index".into(),
                format!("find_by_pid({}) = {:?} but the job is at index {i}", j.pid, jobs.find_by_pid(j.pid)),
            ));
        }
    }
    // job IDs designate what the documentation says
    let find = |s: &str| yash_env::job::id::parse(s).ok().and_then(|id: JobId| id.find(jobs).ok());
    if find("%%") != cur || find("%+") != cur || find("%") != cur {
        return Err(("jobid".into(), format!("%%/%+ resolve to {:?}/{:?}, current job is {cur:?}", find("%%"), find("%+"))));
    }
    if find("%-") != prev {
        return Err(("jobid".into(), format!("%- resolves to {:?}, previous job is {prev:?}", find("%-"))));
    }
    for (i, _) in &all {
        if find(&format!("%{}", i + 1)) != Some(*i) {
            return Err(("jobid".into(), format!("%{} does not resolve to the job at index {i}", i + 1)));
        }
    }
    // `%name` / `%?name`: the unique job whose name starts with / contains the
    // string; not found without a match, ambiguous with more than one
    use yash_env::job::id::FindError;
    for probe in ["s", "sl", "sleep", "sleep 1", "sleep 10", "cat", "c", "v", "vi", "x", "zz", "a|", "1"] {
        for (prefix, substring) in [(true, false), (false, true)] {
            let _ = substring;
            if prefix && probe.chars().all(|c| c.is_ascii_digit()) {
                continue; // `%1` is a job number
            }
            let id = if prefix { format!("%{probe}") } else { format!("%?{probe}") };
            let matching: Vec<usize> = all
                .iter()
                .filter(|(_, j)| if prefix { j.name.starts_with(probe) } else { j.name.contains(probe) })
                .map(|(i, _)| *i)
                .collect();
            let want = match matching.as_slice() {
                [] => Err(FindError::NotFound),
                [i] => Ok(*i),
                _ => Err(FindError::Ambiguous),
            };
            let got = yash_env::job::id::parse(&id).map_err(|e| format!("{e:?}")).map(|j| j.find(jobs));
            if got != Ok(want) {
                return Err((
                    "jobid".into(),
                    format!("{id} resolves to {got:?}, the jobs whose names match are {matching:?}"),
                ));
            }
        }
    }
    Ok(())
}

/// Job names with shared prefixes and substrings, a function of the pid.
pub fn job_name(pid: i32) -> &'static str {
    ["sleep 1", "sleep 10", "cat file", "scat", "echo a|cat", "sl", "vi", "view x"][pid.rem_euclid(8) as usize]
}

// ------------------------------------------------------ (a) event histories

#[derive(Clone, Debug, Serialize, Deserialize, PartialEq)]
pub enum Ev {
    /// insert a job: pid slot (0..8), suspended?
    Insert { slot: u8, suspended: bool },
    /// insert a job reusing the pid of a finished job (the only reuse a kernel produces)
    InsertReuse { suspended: bool },
    /// status report: pid slot, new state 0 running 1 stopped 2 exited 3 signaled
    Update { slot: u8, state: u8, expected: bool },
    SetCurrent { index: u8 },
    Remove { index: u8 },
    /// remove_if: finished jobs / reported jobs
    RemoveIfFinished,
    /// extract_if over the finished jobs, dropped after taking `take` of them
    ExtractSome { take: u8 },
    Report { index: u8 },
    SetLastAsync { slot: u8 },
    DisownAll,
}

#[derive(Clone, Debug, Serialize, Deserialize)]
pub struct History {
    pub events: Vec<Ev>,
}

fn gen_history(rng: &mut Rng, tier: Tier) -> History {
    let len = rng.range(
        1,
        match tier {
            Tier::Quick => 20,
            Tier::Thorough => 30,
        },
    );
    // swarm: vary the event mix per history
    let w_insert = rng.range(1, 6);
    let w_update = rng.range(1, 8);
    let w_stop = rng.range(0, 6);
    let w_remove = rng.range(0, 4);
    let w_setcur = rng.range(0, 3);
    let w_misc = rng.range(0, 2);
    let total = w_insert + w_update + w_remove + w_setcur + w_misc + 1;
    let mut events = Vec::new();
    for _ in 0..len {
        let mut x = rng.below(total);
        let ev = if x < w_insert {
            if rng.below(6) == 0 {
                Ev::InsertReuse {
                    suspended: rng.below(3) == 0,
                }
            } else {
                Ev::Insert {
                    slot: rng.below(6) as u8,
                    suspended: rng.below(6) < w_stop,
                }
            }
        } else if {
            x -= w_insert;
            x < w_update
        } {
            let state = if rng.below(8) < w_stop + 1 { 1 } else { *rng.pick(&[0u8, 0, 2, 2, 3]) };
            Ev::Update {
                slot: rng.below(7) as u8,
                state,
                expected: rng.below(5) == 0,
            }
        } else if {
            x -= w_update;
            x < w_remove
        } {
            if rng.below(4) == 0 {
                if rng.below(3) == 0 {
                    Ev::ExtractSome { take: rng.below(3) as u8 }
                } else {
                    Ev::RemoveIfFinished
                }
            } else {
                Ev::Remove {
                    index: rng.below(6) as u8,
                }
            }
        } else if {
            x -= w_remove;
            x < w_setcur
        } {
            Ev::SetCurrent {
                index: rng.below(6) as u8,
            }
        } else {
            match rng.below(3) {
                0 => Ev::Report {
                    index: rng.below(6) as u8,
                },
                1 => Ev::SetLastAsync {
                    slot: rng.below(6) as u8,
                },
                _ => Ev::DisownAll,
            }
        };
        events.push(ev);
    }
    History { events }
}

fn state_of(code: u8) -> ProcessState {
    match code {
        0 => ProcessState::Running,
        1 => ProcessState::stopped(SIGTSTP),
        2 => ProcessState::exited(ExitStatus(3)),
        _ => ProcessState::Halted(ProcessResult::Signaled {
            signal: SIGKILL,
            core_dump: false,
        }),
    }
}

#[derive(Default)]
pub struct HistStats {
    pub reach: BTreeMap<&'static str, u64>,
    pub hash: u64,
}

/// Applies the history; checks invariants and documented transition rules
/// after every event.
pub fn run_history(h: &History, hs: &mut HistStats) -> Option<(String, String)> {
    let result = crate::sim::catch(|| {
        let mut jobs = JobList::new();
        // pid slot -> pid value; index stability: pid -> index while present
        let pid_of = |slot: u8| Pid(100 + slot as i32);
        let mut where_is: BTreeMap<i32, usize> = BTreeMap::new();
        let mut hash = fnv1a(b"c12");
        for (step, ev) in h.events.iter().enumerate() {
            let before_cur = jobs.current_job();
            let before_prev = jobs.previous_job();
            let before_len = jobs.len();
            let suspended_before = |jobs: &JobList| jobs.iter().filter(|(_, j)| j.state.is_stopped()).count();
            let nsusp = suspended_before(&jobs);
            let fail = |class: &str, msg: String| Some((class.to_string(), format!("event #{step} {ev:?}: {msg}")));
            match ev {
                Ev::Insert { .. } | Ev::InsertReuse { .. } => {
                    let (pid, suspended) = match ev {
                        Ev::Insert { slot, suspended } => {
                            let pid = pid_of(*slot);
                            // a kernel never hands out the pid of a live job
                            if let Some(i) = jobs.find_by_pid(pid)
                                && jobs.get(i).is_some_and(|j| j.state.is_alive())
                            {
                                continue;
                            }
                            (pid, *suspended)
                        }
                        Ev::InsertReuse { suspended } => {
                            let Some((_, j)) = jobs.iter().find(|(_, j)| !j.state.is_alive()) else {
                                continue;
                            };
                            *hs.reach.entry("pid reused by a new job").or_insert(0) += 1;
                            (j.pid, *suspended)
                        }
                        _ => unreachable!(),
                    };
                    let old_index = jobs.find_by_pid(pid);
                    let mut job = Job::new(pid);
                    job.job_controlled = true;
                    if suspended {
                        job.state = ProcessState::stopped(SIGSTOP);
                    }
                    job.name = job_name(pid.0).to_string();
                    let index = jobs.insert(job);
                    if let Some(o) = old_index
                        && o != index
                    {
                        return fail("index-changed", format!("job with pid {pid} replaced at index {index}, was {o}"));
                    }
                    if jobs.find_by_pid(pid) != Some(index) {
                        return fail("pid-index", format!("insert returned {index} but find_by_pid gives {:?}", jobs.find_by_pid(pid)));
                    }
                    if before_len == 0 && jobs.current_job() != Some(index) {
                        return fail("transition", "a job inserted into an empty table must become the current job".into());
                    }
                    if suspended && nsusp == 0 && old_index.is_none() && jobs.current_job() != Some(index) {
                        return fail("transition", "a suspended job inserted while no job is suspended must become the current job".into());
                    }
                    where_is.insert(pid.0, index);
                }
                Ev::Update { slot, state, expected } => {
                    let pid = pid_of(*slot);
                    let st = state_of(*state);
                    let idx = jobs.find_by_pid(pid);
                    if let (Some(i), true) = (idx, *expected) {
                        jobs.get_mut(i).unwrap().expect(st);
                    }
                    let was_suspended = idx.and_then(|i| jobs.get(i)).is_some_and(|j| j.state.is_stopped());
                    let was_changed = idx.and_then(|i| jobs.get(i)).is_some_and(|j| j.state_changed);
                    let r = jobs.update_status(pid, st);
                    if r != idx {
                        return fail("update-result", format!("update_status returned {r:?}, the job is at {idx:?}"));
                    }
                    match idx {
                        None => {
                            *hs.reach.entry("status report for an unknown pid").or_insert(0) += 1;
                            if jobs.len() != before_len || jobs.current_job() != before_cur || jobs.previous_job() != before_prev {
                                return fail("transition", "a report for an unknown pid changed the table".into());
                            }
                        }
                        Some(i) => {
                            let j = jobs.get(i).unwrap();
                            if j.state != st {
                                return fail("transition", format!("state is {:?} after reporting {st:?}", j.state));
                            }
                            if !*expected && !j.state_changed {
                                return fail("transition", "state_changed not set by an unexpected report".into());
                            }
                            if *expected && j.state_changed != was_changed {
                                return fail("transition", "an expected report must leave state_changed as it was".into());
                            }
                            if st.is_stopped() && !was_suspended {
                                if jobs.current_job() != Some(i) {
                                    return fail("transition", "a job that becomes suspended must become the current job".into());
                                }
                                if before_cur.is_some() && before_cur != Some(i) && jobs.previous_job() != before_cur {
                                    return fail("transition", "the old current job must become the previous job".into());
                                }
                            }
                            if nsusp >= 2 {
                                *hs.reach.entry(">= 2 suspended jobs").or_insert(0) += 1;
                            }
                        }
                    }
                }
                Ev::SetCurrent { index } => {
                    let i = *index as usize;
                    let exists = jobs.get(i).is_some();
                    let is_susp = jobs.get(i).is_some_and(|j| j.state.is_stopped());
                    let r = jobs.set_current_job(i);
                    let want = if !exists {
                        Err(SetCurrentJobError::NoSuchJob)
                    } else if !is_susp && nsusp > 0 {
                        Err(SetCurrentJobError::NotSuspended)
                    } else {
                        Ok(())
                    };
                    if r != want {
                        return fail("set-current", format!("set_current_job returned {r:?}, documentation says {want:?}"));
                    }
                    if r.is_ok() {
                        if jobs.current_job() != Some(i) {
                            return fail("set-current", "the selected job is not the current job".into());
                        }
                        if before_cur.is_some() && before_cur != Some(i) && jobs.previous_job() != before_cur {
                            return fail("set-current", "the old current job must become the previous job".into());
                        }
                    } else if jobs.current_job() != before_cur || jobs.previous_job() != before_prev {
                        return fail("set-current", "a refused selection changed the current/previous job".into());
                    }
                }
                Ev::Remove { index } => {
                    let i = *index as usize;
                    let existed = jobs.get(i).map(|j| j.pid);
                    let r = jobs.remove(i);
                    if r.as_ref().map(|j| j.pid) != existed {
                        return fail("remove", format!("remove returned {:?}, job was {existed:?}", r.map(|j| j.pid)));
                    }
                    if let Some(pid) = existed {
                        where_is.remove(&pid.0);
                        if jobs.find_by_pid(pid).is_some() {
                            return fail("pid-index", format!("pid {pid} still designates a job after removal"));
                        }
                        if before_cur == Some(i) {
                            *hs.reach.entry("current job removed").or_insert(0) += 1;
                            if before_prev.is_some() && jobs.current_job() != before_prev {
                                return fail("transition", "when the current job is removed the previous job must become current".into());
                            }
                        }
                    }
                }
                Ev::RemoveIfFinished => {
                    let finished: Vec<i32> = jobs.iter().filter(|(_, j)| !j.state.is_alive()).map(|(_, j)| j.pid.0).collect();
                    jobs.remove_if(|_, j| !j.state.is_alive());
                    for p in &finished {
                        where_is.remove(p);
                        if jobs.find_by_pid(Pid(*p)).is_some() {
                            return fail("remove", format!("remove_if left finished job {p}"));
                        }
                    }
                    if jobs.len() + finished.len() != before_len {
                        return fail("remove", "remove_if removed the wrong number of jobs".into());
                    }
                }
                Ev::ExtractSome { take } => {
                    let taken: Vec<i32> = jobs
                        .extract_if(|_, j| !j.state.is_alive())
                        .take(*take as usize)
                        .map(|(_, j)| j.pid.0)
                        .collect();
                    *hs.reach.entry("extract_if dropped early").or_insert(0) += 1;
                    for p in &taken {
                        where_is.remove(p);
                        if jobs.find_by_pid(Pid(*p)).is_some() {
                            return fail("remove", format!("extract_if yielded job {p} but it is still in the list"));
                        }
                    }
                    if jobs.len() + taken.len() != before_len {
                        return fail("remove", "a partially consumed extract_if removed the wrong number of jobs".into());
                    }
                }
                Ev::Report { index } => {
                    if let Some(mut j) = jobs.get_mut(*index as usize) {
                        j.state_reported();
                    }
                    if jobs.get(*index as usize).is_some_and(|j| j.state_changed) {
                        return fail("transition", "state_reported did not clear state_changed".into());
                    }
                }
                Ev::SetLastAsync { slot } => {
                    jobs.set_last_async_pid(pid_of(*slot));
                    if jobs.last_async_pid() != pid_of(*slot) {
                        return fail("last-async", "$! does not designate the last asynchronous job".into());
                    }
                }
                Ev::DisownAll => jobs.disown_all(),
            }
            if let Err((class, msg)) = check_invariants(&jobs) {
                let table: Vec<String> = jobs
                    .iter()
                    .map(|(i, j)| format!("[{i}] pid {} {}", j.pid, crate::sim::state_name(j.state)))
                    .collect();
                return fail(
                    &class,
                    format!("{msg}; table: {} current={:?} previous={:?}", table.join(", "), jobs.current_job(), jobs.previous_job()),
                );
            }
            // a job's number never changes while the job exists
            for (pid, idx) in &where_is {
                if jobs.find_by_pid(Pid(*pid)) != Some(*idx) {
                    return fail("index-changed", format!("job with pid {pid} was at index {idx}, now {:?}", jobs.find_by_pid(Pid(*pid))));
                }
            }
            hash = fnv_combine(hash, jobs.len() as u64);
            hash = fnv_combine(hash, jobs.current_job().map_or(99, |c| c as u64));
            hash = fnv_combine(hash, jobs.previous_job().map_or(99, |c| c as u64));
            for (i, j) in jobs.iter() {
                hash = fnv_combine(hash, (i as u64) << 8 | j.state.is_stopped() as u64 | (j.state.is_alive() as u64) << 1);
            }
        }
        hs.hash = hash;
        None
    });
    match result {
        Ok(v) => v,
        Err(p) => Some(("panic".into(), p)),
    }
}

// ------------------------------------------------------ (b) whole shell

#[derive(Clone, Debug, Serialize, Deserialize)]
pub struct Script {
    pub lines: Vec<String>,
    /// permille of an external stop/continue/kill per scheduler step
    pub ext_rate: u32,
    /// the shell is interactive as well (`-i`): it announces every
    /// asynchronous job as `[n] pid` on stderr; `n` must be the number the job
    /// has in the table for as long as it exists
    #[serde(default)]
    pub interactive: bool,
}

fn gen_script(rng: &mut Rng, tier: Tier) -> Script {
    let njobs = rng.range(1, 4);
    let mut lines = vec![];
    let mut k = 0;
    for j in 1..=njobs {
        let body = match rng.below(5) {
            0 => format!("{{ pgcheck; selfstop; echo r{j} >>/work/log; exit {j}; }}"),
            1 => format!("{{ pgcheck; nap {}; exit {j}; }}", rng.range(1, 9)),
            2 => format!("{{ selfstop; selfstop; exit {j}; }}"),
            3 => format!("{{ pgcheck; nap {}; selfstop; exit {j}; }}", rng.range(1, 4)),
            _ => format!("{{ pgcheck; exit {j}; }}"),
        };
        lines.push(format!("{body} &"));
        k += 1;
        lines.push(format!("jobcheck {k}"));
        if rng.bool() {
            lines.push(format!("jobs >|/work/jl; jobsout /work/jl {k}"));
            k += 1;
            lines.push(format!("jobcheck {k}"));
        }
    }
    let ops = rng.range(
        2,
        match tier {
            Tier::Quick => 6,
            Tier::Thorough => 10,
        },
    );
    for _ in 0..ops {
        let j = rng.range(1, njobs);
        let line = match rng.below(16) {
            // a job started later: it takes the lowest free number
            14 | 15 => format!("{{ nap {}; exit 9; }} &", rng.range(1, 9)),
            // a job killed while it is suspended, then brought to the
            // foreground; a job killed while the shell waits for it in `fg`
            12 => format!("kill -s KILL %{j} 2>/dev/null; fg %{j} >/dev/null 2>&1; jobcheck 7{j} fg:$?:{j}"),
            13 => format!("kill -s STOP %{j} 2>/dev/null; kill -s TERM %{j} 2>/dev/null; fg %{j} >/dev/null 2>&1; jobcheck 7{j} fg:$?:{j}"),
            0 | 1 => format!("bg %{j} >/dev/null 2>&1"),
            2 => "bg >/dev/null 2>&1".to_string(),
            3 => format!("kill -s STOP %{j} 2>/dev/null"),
            4 => format!("kill -s CONT %{j} 2>/dev/null"),
            5 => format!("kill -s TERM %{j} 2>/dev/null"),
            6 if rng.bool() => "jobs >|/work/jl; jobsout /work/jl op".to_string(),
            // job ID operands, one of them twice
            6 => {
                let (a, b) = (rng.range(1, njobs), rng.range(1, njobs));
                let c = rng.range(1, njobs);
                format!("jobs %{a} %{a} %{b} %{c} >|/work/jl 2>|/work/je; jobsout /work/jl ops:{a},{b},{c} /work/je")
            }
            7 => "jobs -l >/dev/null; jobs -n >/dev/null".to_string(),
            8 => format!("nap {}", rng.range(1, 6)),
            9 => format!("jobcheck 6{j}; fg %{j} >/dev/null 2>&1; jobcheck 7{j} fg:$?:{j}"),
            10 => format!("for i in 1 2; do nap 1; jobcheck 9{j}; done"),
            _ => format!("f() {{ nap 1; jobcheck 8{j}; }}; f"),
        };
        lines.push(line);
        k += 1;
        lines.push(format!("jobcheck {k}"));
    }
    // make sure everything can finish: no more external events, continue
    // every job as often as a body can stop itself, then wait
    lines.push("trap 'jobcheck 999' EXIT".into());
    lines.push("mark finale".into());
    for _ in 0..6 {
        lines.push("nap 20".into());
        lines.push("contall".into());
    }
    lines.push("wait".into());
    k += 1;
    lines.push(format!("jobcheck {k}"));
    Script {
        lines,
        ext_rate: *rng.pick(&[0u32, 0, 20, 60]),
        interactive: rng.below(3) == 0,
    }
}

/// Environment: stop / continue / kill children of the shell at seeded steps;
/// always continues stopped processes eventually so that the run can finish.
fn job_env(rate: u32) -> impl FnMut(&mut Sim, u64) -> bool {
    let mut seen = 0usize;
    let mut finale = false;
    move |sim: &mut Sim, _step: u64| {
        if rate == 0 || finale {
            return true;
        }
        {
            let h = sim.ctl.history.borrow();
            if h[seen..].iter().any(|e| e.kind == "mark" && e.text.starts_with("finale")) {
                finale = true;
            }
            seen = h.len();
        }
        if finale || !sim.ctl.decider.borrow_mut().chance(tag::ENV, rate) {
            return true;
        }
        let children: Vec<Pid> = {
            let st = sim.state.borrow();
            st.processes
                .iter()
                .filter(|(pid, p)| p.ppid() == Pid(2) && p.state().is_alive() && pid.0 != 2)
                .map(|(pid, _)| *pid)
                .collect()
        };
        if children.is_empty() {
            return true;
        }
        let mut d = sim.ctl.decider.borrow_mut();
        let target = children[d.choose(tag::ENV, children.len() as u32) as usize];
        let sig = match d.choose(tag::ENV, 5) {
            0 | 1 => SIGSTOP,
            2 | 3 => SIGCONT,
            _ => SIGKILL,
        };
        drop(d);
        use yash_env::system::SendSignal as _;
        let sys = yash_env::system::r#virtual::VirtualSystem {
            state: std::rc::Rc::clone(&sim.state),
            process_id: Pid(1),
        };
        sim.ctl.quiet.set(true);
        drop(sys.kill(target, Some(sig)));
        sim.ctl.quiet.set(false);
        sim.ctl.count(if sig == SIGSTOP {
            "ext_stop"
        } else if sig == SIGCONT {
            "ext_cont"
        } else {
            "ext_kill"
        });
        true
    }
}

fn check_script_run(s: &Script, obs: &Observed) -> Option<Viol> {
    // invariant failures recorded by the jobcheck probe come first
    for e in &obs.history {
        if e.kind == "jobcheck-fail" {
            let class = e.text.split(':').next().unwrap_or("invariant").to_string();
            return Some((class.clone(), class, format!("jobcheck in pid {}: {}", e.pid, e.text)));
        }
    }
    // an interactive shell announces each asynchronous job as `[n] pid`: n is
    // the job's number in every later view of the table that lists the pid
    for l in obs.stderr.lines() {
        let Some(rest) = l.strip_prefix('[') else { continue };
        let Some((n, pid)) = rest.split_once("] ") else { continue };
        let (Ok(n), Ok(pid)) = (n.parse::<usize>(), pid.trim().parse::<i32>()) else { continue };
        for e in obs.history.iter().filter(|e| e.kind == "jobcheck" && e.pid == 2) {
            // `... jobs=[i]pid:state,[i]pid:state cur=...`
            let Some(table) = e.text.split("jobs=").nth(1).and_then(|t| t.split(" cur=").next()) else { continue };
            for item in table.split(',') {
                let Some((i, rest)) = item.trim_start_matches('[').split_once(']') else { continue };
                let Some((p, _)) = rest.split_once(':') else { continue };
                if p.parse::<i32>() == Ok(pid) && i.parse::<usize>().map(|i| i + 1) != Ok(n) {
                    return Some((
                        "announced-number".into(),
                        "announced-number".into(),
                        format!("the shell announced `[{n}] {pid}` but process {pid} is job number {} in the table: {}", i.parse::<usize>().map_or(0, |i| i + 1), e.text),
                    ));
                }
            }
        }
    }
    // plain `jobs` reports every job and removes the finished ones: a job that
    // was finished in the view of the table before it is gone in the view after it
    {
        let mut last: Option<&crate::sim::Ev> = None;
        let mut pending: Option<Vec<i32>> = None;
        for e in obs.history.iter().filter(|e| e.pid == 2) {
            match e.kind.as_str() {
                "jobcheck" => {
                    if let Some(done) = pending.take() {
                        let table = e.text.split("jobs=").nth(1).and_then(|t| t.split(" cur=").next()).unwrap_or("");
                        for p in done {
                            if table.split(',').any(|item| item.split_once(']').and_then(|(_, r)| r.split_once(':')).is_some_and(|(q, _)| q.parse::<i32>() == Ok(p))) {
                                return Some((
                                    "jobs-keeps-finished".into(),
                                    "jobs-keeps-finished".into(),
                                    format!("process {p} was a finished job before `jobs` listed all jobs and is still in the table afterwards: {}", e.text),
                                ));
                            }
                        }
                    }
                    last = Some(e);
                }
                "jobsout" if e.a == 0 => {
                    if let Some(pre) = last {
                        // (with job ID operands only the named jobs are listed and removed)
                        let named: Option<Vec<usize>> = e.text.strip_prefix("ops:").map(|l| l.split(',').filter_map(|n| n.parse().ok()).collect());
                        let table = pre.text.split("jobs=").nth(1).and_then(|t| t.split(" cur=").next()).unwrap_or("");
                        let done: Vec<i32> = table
                            .split(',')
                            .filter_map(|item| item.trim_start_matches('[').split_once(']'))
                            .filter_map(|(i, r)| r.split_once(':').map(|(q, st)| (i, q, st)))
                            .filter(|(_, _, st)| st.starts_with("exited") || st.starts_with("signaled"))
                            .filter(|(i, _, _)| named.as_ref().is_none_or(|n| i.parse::<usize>().is_ok_and(|i| n.contains(&(i + 1)))))
                            .filter_map(|(_, q, _)| q.parse().ok())
                            .collect();
                        pending = Some(done);
                    }
                }
                _ => {}
            }
        }
    }
    // `fg %N` of a suspended job that stops again: "if the job gets suspended
    // again, it is set as the current job", and the former current job becomes
    // the previous one. Judged only when nothing else can have moved the marks
    // in between: no external events, and between the two views of the table no
    // signal sent by or to any other process.
    if s.ext_rate == 0 {
        struct View {
            seq: u64,
            jobs: Vec<(usize, i32, String)>,
            cur: Option<usize>,
            prev: Option<usize>,
            fg: Option<(u32, usize)>,
        }
        let parse = |e: &crate::sim::Ev| -> Option<View> {
            let table = e.text.split("jobs=").nth(1)?;
            let (table, rest) = table.split_once(" cur=")?;
            let (cur, prev) = rest.split_once(" prev=")?;
            let idx = |t: &str| t.trim().strip_prefix("Some(").and_then(|r| r.strip_suffix(')')).and_then(|n| n.parse::<usize>().ok());
            let mut jobs = Vec::new();
            for item in table.split(',').filter(|i| !i.is_empty()) {
                let (i, r) = item.trim_start_matches('[').split_once(']')?;
                let (p, st) = r.split_once(':')?;
                jobs.push((i.parse().ok()?, p.parse().ok()?, st.to_string()));
            }
            let fg = e.text.split_whitespace().find_map(|w| {
                let r = w.strip_prefix("fg:")?;
                let (st, n) = r.split_once(':')?;
                Some((st.parse().ok()?, n.parse().ok()?))
            });
            Some(View { seq: e.seq, jobs, cur: idx(cur), prev: idx(prev), fg })
        };
        let views: Vec<View> = obs.history.iter().filter(|e| e.kind == "jobcheck" && e.pid == 2).filter_map(parse).collect();
        for w in views.windows(2) {
            let (pre, post) = (&w[0], &w[1]);
            let Some((status, n)) = post.fg else { continue };
            // (384 + SIGSTOP: the job was suspended again)
            if status != 384 + 116 || n == 0 {
                continue;
            }
            let Some(target) = pre.jobs.iter().find(|j| j.0 == n - 1) else { continue };
            if !target.2.starts_with("stopped") {
                continue;
            }
            let p = target.1;
            let quiet = !obs.history.iter().any(|e| {
                e.seq > pre.seq && e.seq < post.seq && e.kind == "kill" && e.pid != p && !(e.pid == 2 && (e.a == p as i64 || e.a == -(p as i64)))
            });
            if !quiet {
                continue;
            }
            let want_prev = pre.cur.filter(|c| *c != n - 1 && pre.jobs.iter().any(|j| j.0 == *c && j.2.starts_with("stopped")));
            let bad_cur = post.cur != Some(n - 1);
            let bad_prev = want_prev.is_some() && post.prev != want_prev;
            if bad_cur || bad_prev {
                return Some((
                    "fg-resuspended".into(),
                    "fg-resuspended".into(),
                    format!(
                        "`fg %{n}` resumed a suspended job that was suspended again: it must be the current job now{}; before: {} | after: {}",
                        want_prev.map_or(String::new(), |c| format!(" and job {} the previous one", c + 1)),
                        obs.history.iter().find(|e| e.seq == pre.seq).map_or("", |e| e.text.as_str()),
                        obs.history.iter().find(|e| e.seq == post.seq).map_or("", |e| e.text.as_str()),
                    ),
                ));
            }
        }
    }
    if let Some(v) = check_liveness(obs) {
        // stopped children that nobody continues are the script's business only
        // if the main shell did not finish
        return Some(v);
    }
    None
}

fn spec_of(s: &Script) -> ScriptSpec {
    ScriptSpec {
        script: s.lines.join("\n") + "\n",
        dash_c: true,
        options: if s.interactive { vec!["-m".into(), "-i".into()] } else { vec!["-m".into()] },
        ..Default::default()
    }
}

fn run_script_case(s: &Script, cfg: &SimConfig, decider: Decider) -> (Observed, Option<Viol>) {
    let obs = run_script_with(&spec_of(s), cfg, decider, |_| {}, job_env(s.ext_rate));
    let v = check_script_run(s, &obs);
    (obs, v)
}

#[derive(Clone, Debug, Serialize, Deserialize)]
enum Stored {
    History(History),
    Script(Script),
}

pub struct C12;

fn draw_config(rng: &mut Rng, k: u32) -> SimConfig {
    let strategy = if k == 0 {
        Strategy::Fifo
    } else {
        match rng.below(10) {
            0..=5 => Strategy::Random,
            6..=7 => Strategy::Pct(rng.range(1, 3)),
            _ => Strategy::RoundRobin,
        }
    };
    SimConfig {
        strategy,
        preempt_permille: if k == 0 { 0 } else { *rng.pick(&[0u32, 50, 200]) },
        max_steps: 50_000,
        ..Default::default()
    }
}

impl Prop for C12 {
    fn id(&self) -> &'static str {
        "C12"
    }
    fn level(&self) -> &'static str {
        "exploration"
    }
    fn rule(&self) -> String {
        "Two engines, one invariant checker (non-empty => current job exists; >= 2 jobs => previous exists and differs; any suspended => current suspended; >= 2 suspended => previous suspended; find_by_pid is a bijection onto iter(); an index never changes while its job exists; %%, %+, %-, %n resolve as documented; plus the transition rules documented on JobList::insert/remove/update_status/set_current_job). (a) Seeded event histories (up to 30 events, event mix varied per history) over {insert running/suspended with a fresh pid or the pid of a finished job, status report running/stopped/exited/signaled incl. duplicates, expected reports and reports for unknown pids, set_current_job, remove, remove_if, state_reported, set_last_async_pid, disown_all} applied to the real JobList, checked after every event. (b) Whole-shell scripts under `set -m` on the simulated OS: 1-4 asynchronous jobs that stop themselves, sleep or exit; bg / fg / kill -STOP/-CONT/-TERM %n / jobs / wait, inside loops and functions; the simulator additionally stops, continues and kills children at seeded steps; a jobcheck probe evaluates the invariants on Env::jobs after every command and from the EXIT trap, under seeded schedules with preemption. Distinct non-trivial: (a) distinct table-state trajectories (hash of the state after every event) with >= 2 jobs alive at some point; (b) distinct (script, schedule hash, injected-signal count). The text the `jobs` built-in prints is checked too (`jobsout` probe): job numbers unique, exactly one line marked `+`, exactly one marked `-` when two or more jobs are listed, and stopped jobs take the marks first.".into()
    }
    fn assumptions(&self) -> Vec<String> {
        vec![
            "the histories are sampled (swarm-varied mixes), not enumerated breadth-first".into(),
            "terminal access control (SIGTTIN/SIGTTOU for background jobs) is not modelled by the simulated kernel".into(),
        ]
    }
    fn components(&self) -> Value {
        json!({"real": ["yash-env job.rs (JobList, job::id)", "jobs/fg/bg/kill/wait built-ins", "Env::update_all_subshell_statuses, subshell start-up with job control, VirtualSystem process states / SIGSTOP / SIGCONT"], "stub": ["event-history driver", "jobcheck / selfstop / contall probes", "simulator-side stop/continue/kill", "seeded scheduler"]})
    }
    fn cases(&self, tier: Tier) -> u64 {
        match tier {
            Tier::Quick => 500_000,
            Tier::Thorough => 4_000_000,
        }
    }

    fn run_case(&self, seed: u64, index: u64, tier: Tier, stats: &mut Stats) -> Option<Failure> {
        let mut rng = Rng::stream(seed, 12, index);
        // one case in 60 is a whole-shell script (they are ~1000x more expensive)
        if index % 60 == 59 {
            let s = gen_script(&mut rng, tier);
            let script_hash = hash_str(&s.lines.join("\n"));
            let schedules = match tier {
                Tier::Quick => 4,
                Tier::Thorough => 8,
            };
            for k in 0..schedules {
                let cfg = draw_config(&mut rng, k);
                let (obs, v) = run_script_case(&s, &cfg, Decider::record(Rng::stream(seed, 1200 + k as u64, index)));
                stats.note_run(script_hash, &obs.outcome, obs.faults_fired + obs.counter_sum(&["ext_stop", "ext_cont", "ext_kill"]));
                stats.add_counters(&obs.counters);
                stats.count("engine:whole-shell", 1);
                stats.count("jobchecks_evaluated", obs.history.iter().filter(|e| e.kind == "jobcheck").count() as u64);
                stats.digest(index, obs_digest(&obs));
                if k == 0 && stats.samples.len() < 2 && index % 600 == 59 {
                    stats.samples.push(json!({"engine": "whole-shell", "script": s.lines, "jobchecks": obs.history.iter().filter(|e| e.kind == "jobcheck").map(|e| e.text.clone()).take(12).collect::<Vec<_>>()}));
                }
                if let Some(v) = v {
                    return Some(Failure {
                        class: v.0,
                        key: format!("shell:{}", v.1),
                        detail: format!("{}\n--- script (sh -m{}) ---\n{}", v.2, if s.interactive { " -i" } else { "" }, s.lines.join("\n")),
                        case: serde_json::to_value(Stored::Script(s.clone())).unwrap(),
                        cfg,
                        decisions: obs.decisions.clone(),
                        history_tail: history_tail(&obs.history, 30),
                    });
                }
            }
            return None;
        }
        let h = gen_history(&mut rng, tier);
        let mut hs = HistStats::default();
        let v = run_history(&h, &mut hs);
        stats.evaluations += 1;
        stats.count("engine:event-history", 1);
        stats.count("events_applied", h.events.len() as u64);
        for (k, n) in &hs.reach {
            stats.count(&format!("reach:{k}"), *n);
        }
        stats.distinct.insert(hs.hash);
        stats.digest(index, hs.hash);
        if stats.samples.len() < 3 && index % 5000 == 3 {
            stats.samples.push(json!({"engine": "event-history", "events": h.events}));
        }
        v.map(|(class, detail)| Failure {
            key: format!("history:{class}"),
            class,
            detail: format!("{detail}\n--- history ---\n{}", serde_json::to_string(&h.events).unwrap()),
            case: serde_json::to_value(Stored::History(h.clone())).unwrap(),
            cfg: SimConfig::default(),
            decisions: Vec::new(),
            history_tail: Vec::new(),
        })
    }

    fn rerun(&self, case: &Value, cfg: &SimConfig, decisions: &[Decision]) -> Option<Failure> {
        match serde_json::from_value::<Stored>(case.clone()).ok()? {
            Stored::History(h) => {
                let mut hs = HistStats::default();
                run_history(&h, &mut hs).map(|(class, detail)| Failure {
                    key: format!("history:{class}"),
                    class,
                    detail: format!("{detail}\n--- history ---\n{}", serde_json::to_string(&h.events).unwrap()),
                    case: case.clone(),
                    cfg: cfg.clone(),
                    decisions: Vec::new(),
                    history_tail: Vec::new(),
                })
            }
            Stored::Script(s) => {
                let (obs, v) = run_script_case(&s, cfg, Decider::replay(decisions));
                v.map(|v| Failure {
                    class: v.0,
                    key: format!("shell:{}", v.1),
                    detail: format!("{}\n--- script (sh -m{}) ---\n{}", v.2, if s.interactive { " -i" } else { "" }, s.lines.join("\n")),
                    case: case.clone(),
                    cfg: cfg.clone(),
                    decisions: obs.decisions.clone(),
                    history_tail: history_tail(&obs.history, 30),
                })
            }
        }
    }

    fn shrink(&self, case: &Value) -> Vec<Value> {
        match serde_json::from_value::<Stored>(case.clone()) {
            Ok(Stored::History(h)) => {
                let mut out = Vec::new();
                for i in 0..h.events.len() {
                    let mut n = h.clone();
                    n.events.remove(i);
                    out.push(serde_json::to_value(Stored::History(n)).unwrap());
                }
                out
            }
            Ok(Stored::Script(s)) => {
                let mut out = Vec::new();
                if s.ext_rate > 0 {
                    let mut n = s.clone();
                    n.ext_rate = 0;
                    out.push(serde_json::to_value(Stored::Script(n)).unwrap());
                }
                for i in 0..s.lines.len() {
                    if s.lines[i].ends_with('&') || s.lines[i] == "wait" || s.lines[i] == "contall" || s.lines[i].starts_with("nap 20") || s.lines[i] == "mark finale" {
                        continue;
                    }
                    let mut n = s.clone();
                    n.lines.remove(i);
                    out.push(serde_json::to_value(Stored::Script(n)).unwrap());
                }
                out
            }
            Err(_) => Vec::new(),
        }
    }
}
